# Build of the deterministic-simulation harnesses against the repository's
# *current working tree* (REPO, default /repo). Every repository source the
# harnesses exercise is compiled here from $(REPO); header dependencies are
# tracked (-MMD), so an edited header or .c file is picked up by `make`.
REPO ?= /repo
B    ?= build
CC   := gcc
CXX  := g++

SAN      := -fsanitize=address,undefined -fno-sanitize-recover=undefined -fno-omit-frame-pointer
OPT      := -O1 -g
# the guard for hooks in /repo (none are needed so far; see MANIFEST.hooks)
DEFS     := -DPHOTOSPLINE_INCLUDES_SPGLAM -DPHOTOSPLINE_VERSION=2.1.0 -DPHOTOSPLINE_VERIF
REPOINC  := -I$(REPO)/include -I$(REPO)/src/fitter -I/usr/include/suitesparse
CFLAGS_R := -std=gnu99 $(OPT) $(DEFS) $(REPOINC) -MMD -MP
CXXFLAGS := -std=gnu++17 $(OPT) $(DEFS) $(REPOINC) -I$(CURDIR) -Wall -Wno-unused-parameter -Wno-sign-compare -Wno-unknown-pragmas -MMD -MP
CXX11_R  := -std=gnu++11 $(OPT) $(DEFS) $(REPOINC) -msse2 -msse3 -msse4 -msse4.1 -msse4.2 -mno-avx -MMD -MP

MATHLIBS := -lspqr -lcholmod -lcamd -lccolamd -lamd -lcolamd -lsuitesparseconfig -lopenblas -lmetis -lm
# static cfitsio (so that its disk driver's stdio calls can be wrapped at link time)
CFITSIO_STATIC := /usr/lib/x86_64-linux-gnu/libcfitsio.a -lcurl -lz -lbz2

FITTER_SRC := cholesky_solve nnls glam splineutil
CORE_SRC   := bspline bspline_multi convolve fitsio

wrap = $(foreach s,$(1),-Wl,--wrap=$(s))

.PHONY: all clean sched io hist
all: sched io hist

clean:
	rm -rf $(B)

# ---------------------------------------------------------------- shared
$(B)/asan/sim/%.o: sim/%.cpp
	@mkdir -p $(dir $@)
	$(CXX) $(CXXFLAGS) $(SAN) -c $(abspath $<) -o $@
$(B)/asan/harness/%.o: harness/%.cpp
	@mkdir -p $(dir $@)
	$(CXX) $(CXXFLAGS) $(SAN) -c $(abspath $<) -o $@

# repository objects, ASan+UBSan variant (asserts stay enabled: no -DNDEBUG)
$(B)/asan/repo/fitter/%.o: $(REPO)/src/fitter/%.c
	@mkdir -p $(dir $@)
	$(CC) $(CFLAGS_R) $(SAN) -c $< -o $@
$(B)/asan/repo/core/%.o: $(REPO)/src/core/%.cpp
	@mkdir -p $(dir $@)
	$(CXX) $(CXX11_R) $(SAN) -c $< -o $@
# the command-line tools, compiled as they are and then their symbol `main` renamed (objcopy) so that the harness
# can call them (C07: exit status on damaged files); renaming after compilation keeps main's implicit `return 0`
$(B)/asan/repo/tools/%.o: $(REPO)/src/tools/%.cpp
	@mkdir -p $(dir $@)
	$(CXX) $(CXX11_R) $(SAN) -c $< -o $@.tmp.o
	objcopy --redefine-sym main=psv_tool_$*_main $@.tmp.o $@
	@rm -f $@.tmp.o
$(B)/asan/repo/cinter/%.o: $(REPO)/src/cinter/%.cpp
	@mkdir -p $(dir $@)
	$(CXX) $(CXX11_R) $(SAN) -c $< -o $@

# race variant: the threaded fitter files get ThreadSanitizer *instrumentation
# only* (no TSan runtime is linked; sim/sched.cpp defines the callbacks)
$(B)/race/repo/fitter/cholesky_solve.o: $(REPO)/src/fitter/cholesky_solve.c
	@mkdir -p $(dir $@)
	$(CC) $(CFLAGS_R) -fsanitize=thread -c $< -o $@
$(B)/race/repo/fitter/nnls.o: $(REPO)/src/fitter/nnls.c
	@mkdir -p $(dir $@)
	$(CC) $(CFLAGS_R) -fsanitize=thread -c $< -o $@

# ---------------------------------------------------------------- psv_sched
SCHED_WRAPS := pthread_create pthread_join pthread_detach pthread_exit pthread_self \
  pthread_mutex_init pthread_mutex_destroy pthread_mutex_lock pthread_mutex_trylock pthread_mutex_unlock \
  pthread_cond_init pthread_cond_destroy pthread_cond_wait pthread_cond_timedwait pthread_cond_signal pthread_cond_broadcast \
  sched_yield sleep usleep nanosleep sched_setaffinity pthread_setaffinity_np pthread_attr_init pthread_attr_destroy pthread_attr_setaffinity_np getenv sysconf clock \
  walk_descents modify_factor cholesky_solve SuiteSparseQR_C_backslash_default cholmod_l_start cholmod_l_reallocate_column cholmod_l_allocate_dense cholmod_l_copy_dense cholmod_l_sdmult cholmod_l_free_dense \
  malloc calloc realloc free
SCHED_COMMON := $(B)/asan/sim/harness.o $(B)/asan/sim/sched.o $(B)/asan/sim/refblas.o $(B)/asan/harness/psv_sched.o \
  $(addprefix $(B)/asan/repo/core/,$(addsuffix .o,$(CORE_SRC)))
SCHED_ASAN_OBJS := $(SCHED_COMMON) $(addprefix $(B)/asan/repo/fitter/,$(addsuffix .o,$(FITTER_SRC)))
SCHED_RACE_OBJS := $(SCHED_COMMON) $(B)/race/repo/fitter/cholesky_solve.o $(B)/race/repo/fitter/nnls.o \
  $(B)/asan/repo/fitter/glam.o $(B)/asan/repo/fitter/splineutil.o

REFBLAS_EXPORT := $(foreach s,dgemm_ dsyrk_ dtrsm_ dgemv_ dtrsv_ dpotrf_,-Wl,--export-dynamic-symbol=$(s))
$(B)/psv_sched.asan: $(SCHED_ASAN_OBJS)
	$(CXX) $(SAN) -o $@ $^ $(REFBLAS_EXPORT) $(call wrap,$(SCHED_WRAPS)) -lcfitsio $(MATHLIBS) -lpthread
$(B)/psv_sched.race: $(SCHED_RACE_OBJS)
	$(CXX) $(SAN) -o $@ $^ $(REFBLAS_EXPORT) $(call wrap,$(SCHED_WRAPS)) -lcfitsio $(MATHLIBS) -lpthread
sched: $(B)/psv_sched.asan $(B)/psv_sched.race

-include mk/io.mk
-include mk/hist.mk

-include $(shell find $(B) -name '*.d' 2>/dev/null)
