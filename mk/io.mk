# psv_io: deterministic simulation of the FITS I/O paths (C06, C07, C08).
#
# Link-time seams (DESIGN S4/S5): cfitsio is linked *statically* so that the
# libc calls of its disk driver can be wrapped. `nm libcfitsio.a` shows that
# drvrfile.o references fopen64, fileno, ftruncate64, remove (plus fread,
# fwrite, fseeko64, ftello64, fflush, fclose, which stay real: they operate on
# the fopencookie stream the wrapped fopen64 returns). fopen and ftruncate are
# wrapped as guards for a cfitsio built without LFS aliases; realloc for the
# growth of cfitsio memory files; ffrprt (cfitsio's error printer) only to keep
# millions of injected failures off stderr.
IO_WRAPS := fopen64 fopen remove unlink rename access fileno ftruncate64 ftruncate realloc ffrprt open open64 creat read write pread pwrite pread64 pwrite64 lseek lseek64 close fsync fdatasync stat stat64 lstat

IO_OBJS := $(B)/asan/sim/harness.o $(B)/asan/sim/simdisk.o $(B)/asan/sim/fitscodec.o $(B)/asan/sim/tablegen.o \
  $(B)/asan/harness/psv_io.o \
  $(addprefix $(B)/asan/repo/core/,$(addsuffix .o,$(CORE_SRC))) \
  $(addprefix $(B)/asan/repo/fitter/,$(addsuffix .o,$(FITTER_SRC))) \
  $(B)/asan/repo/cinter/splinetable.o \
  $(B)/asan/repo/tools/eval.o $(B)/asan/repo/tools/inspect.o

# where the shipped reference files and the golden digests live
$(B)/asan/harness/psv_io.o: CXXFLAGS += -DPSV_REPO_DIR='"$(abspath $(REPO))"' -DPSV_VERIF_DIR='"$(CURDIR)"'  -Wno-volatile-register-var

$(B)/psv_io.asan: $(IO_OBJS)
	$(CXX) $(SAN) -o $@ $^ $(call wrap,$(IO_WRAPS)) $(CFITSIO_STATIC) $(MATHLIBS) -lpthread

.PHONY: io golden
io: $(B)/psv_io.asan

# (re)create golden/shipped.json from the reference files; never run by a check
golden: $(B)/psv_io.asan
	$(B)/psv_io.asan golden --write
