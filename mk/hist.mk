# psv_hist: deterministic simulation of table-object histories (C16, C18, C19, C20).
#
# Same link-time seams as psv_io (the simulated disk is linked: see mk/io.mk for
# the reasoning behind each wrapped symbol) plus cholmod_l_start, which forces
# CHOLMOD's simplicial code path so that fitted numbers do not depend on heap
# alignment (same seam as psv_sched).
#
# Object rules come from the main Makefile ($(B)/asan/sim/%.o, $(B)/asan/harness/%.o,
# $(B)/asan/repo/{core,fitter,cinter}/%.o); nothing is defined twice here.
HIST_WRAPS := fopen64 fopen remove unlink rename access fileno ftruncate64 ftruncate realloc ffrprt open open64 creat read write pread pwrite pread64 pwrite64 lseek lseek64 close fsync fdatasync stat stat64 lstat cholmod_l_start

# The repository's C++ objects are linked as copies in which the references to operator new / new[]
# (_Znwm, _Znam) are renamed to psv_hook_Znwm / psv_hook_Znam (defined in harness/psv_hist_c18.inc):
# the simulator can then refuse exactly one request of the *library's* code inside a C call (allocation
# failure of the default allocator) without ever touching its own or the harness's allocations, and
# without replacing the global operator new (ASan's new/delete checks stay on).
$(B)/asan/repo-nf/%.o: $(B)/asan/repo/%.o
	@mkdir -p $(dir $@)
	objcopy --redefine-sym _Znwm=psv_hook_Znwm --redefine-sym _Znam=psv_hook_Znam $< $@

HIST_OBJS := $(B)/asan/sim/harness.o $(B)/asan/sim/simdisk.o $(B)/asan/sim/fitscodec.o $(B)/asan/sim/tablegen.o \
  $(B)/asan/harness/psv_hist.o \
  $(addprefix $(B)/asan/repo-nf/core/,$(addsuffix .o,$(CORE_SRC))) \
  $(addprefix $(B)/asan/repo/fitter/,$(addsuffix .o,$(FITTER_SRC))) \
  $(B)/asan/repo-nf/cinter/splinetable.o

$(B)/asan/harness/psv_hist.o: CXXFLAGS += -Wno-volatile-register-var
# the history harness is one translation unit split over include files
$(B)/asan/harness/psv_hist.o: $(wildcard harness/psv_hist_*.inc)

$(B)/psv_hist.asan: $(HIST_OBJS)
	$(CXX) $(SAN) -o $@ $^ $(call wrap,$(HIST_WRAPS)) $(CFITSIO_STATIC) $(MATHLIBS) -lpthread

.PHONY: hist
hist: $(B)/psv_hist.asan
