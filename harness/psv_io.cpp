// psv_io — deterministic simulation of photospline's FITS I/O (C06, C07, C08).
//
// Real code under test: include/photospline/detail/fitsio.h, src/core/fitsio.cpp,
// src/cinter/splinetable.cpp, the static cfitsio with its disk and memory
// drivers, glibc's stdio buffering. Simulated: the kernel file object
// (sim/simdisk), the allocator behind splinetable<Alloc> (sim/simalloc.h).
//
// A run is a pure function of its plan (JSON); the plan is a pure function of
// (property, runseed, tier). See DESIGN.md §3.2, §3.4-3.6, §4 (C06, C07, C08).
#include "sim/harness.h"
#include "sim/simalloc.h"
#include "sim/simdisk.h"
#include "sim/fitscodec.h"
#include "sim/tablegen.h"
#include <algorithm>
#include <cfloat>
#include <cmath>
#include <cstring>
#include <fstream>
#include <functional>
#include <memory>
#include <new>
#include <fcntl.h>
#include <sys/wait.h>
#include <unistd.h>

#include "photospline/splinetable.h"
#include "photospline/cinter/splinetable.h"

#ifndef PSV_REPO_DIR
#define PSV_REPO_DIR "/repo"
#endif
#ifndef PSV_VERIF_DIR
#define PSV_VERIF_DIR "/verif"
#endif

// cfitsio's error-stack printer: the library calls it after every failed close
// or open. The wrapper drains the message stack exactly like the original and
// stays silent, so that millions of injected failures do not flood stderr.
extern "C" {
void ffcmsg(void);
void __wrap_ffrprt(FILE *stream, int status);
}
static uint64_t g_ffrprt_calls = 0, g_ffrprt_errors = 0;
extern "C" void __wrap_ffrprt(FILE *, int status) {
	g_ffrprt_calls++;
	if (status) { g_ffrprt_errors++; ffcmsg(); }
}

// the repository's command-line tools, symbol main renamed by the build (see Makefile)
extern "C" int psv_tool_eval_main(int argc, char *argv[]);
extern "C" int psv_tool_inspect_main(int argc, char *argv[]);
using namespace psv;

namespace {

// NB: splinetable<std::allocator<void>> is deliberately *not* instantiated in
// this translation unit; default-allocator tables are reached only through
// the C wrappers compiled from the repository (src/cinter/splinetable.cpp).
typedef photospline::splinetable<SimAlloc<void>> Tab;

const char *const SHIPPED[] = {"test_spline_1d.fits", "test_spline_1d_nco.fits", "test_spline_2d.fits", "test_spline_2d_nco.fits",
                               "test_spline_3d.fits", "test_spline_3d_nco.fits", "test_spline_4d.fits", "test_spline_4d_nco.fits",
                               "test_spline_5d.fits", "test_spline_5d_nco.fits"};
const size_t N_SHIPPED = 10;

std::string repo_dir() { const char *e = getenv("PSV_REPO"); return e && *e ? e : PSV_REPO_DIR; }
std::string golden_path() { return std::string(PSV_VERIF_DIR) + "/golden/shipped.json"; }

bool slurp(const std::string &path, Bytes &out) {
	std::ifstream f(path, std::ios::binary);
	if (!f) return false;
	out.assign(std::istreambuf_iterator<char>(f), std::istreambuf_iterator<char>());
	return true;
}

// ---------------------------------------------------------------- table objects
// A table whose lifetime is managed by hand, so that an object found in a
// known-bad state can be abandoned (its blocks dropped from the ledger)
// instead of destroyed.
struct TabBox {
	alignas(Tab) unsigned char buf[sizeof(Tab)];
	bool live = false;
	int owner = 0;
	Ledger &L;
	explicit TabBox(Ledger &l) : L(l) {}
	TabBox(const TabBox &) = delete;
	Tab &make() { owner = L.new_owner(); new (buf) Tab(SimAlloc<void>(owner)); live = true; return get(); }
	// construct-from-path; throws what the constructor throws (object then never existed)
	Tab &make_from(const std::string &path) { owner = L.new_owner(); new (buf) Tab(path, SimAlloc<void>(owner)); live = true; return get(); }
	Tab &get() { return *std::launder(reinterpret_cast<Tab *>(buf)); }
	void destroy() { if (live) { live = false; get().~Tab(); } }
	size_t abandon() { live = false; return L.abandon(owner); }
	~TabBox() { destroy(); }
};

struct Snapshot {
	TableSpec t;                      // extents and periods always present
	std::vector<uint64_t> strides;
};

Snapshot snapshot(const Tab &t) {
	Snapshot s;
	s.t.ndim = t.get_ndim();
	for (uint32_t i = 0; i < s.t.ndim; i++) {
		s.t.order.push_back(t.get_order(i));
		s.t.naxes.push_back(t.get_ncoeffs(i));
		s.strides.push_back(t.get_stride(i));
		s.t.knots.emplace_back(t.get_knots(i), t.get_knots(i) + t.get_nknots(i));
		s.t.extents.push_back(t.lower_extent(i));
		s.t.extents.push_back(t.upper_extent(i));
		s.t.periods.push_back(t.get_period(i));
	}
	s.t.has_extents = s.t.has_periods = true;
	uint64_t n = s.t.ndim ? t.get_ncoeffs() : 0;
	if (n) s.t.coeff.assign(t.get_coefficients(), t.get_coefficients() + n);
	for (size_t i = 0; i < t.get_naux_values(); i++) {
		AuxEntry e;
		e.key = t.get_aux_key(i);
		const char *v = t.get_aux_value(e.key.c_str());
		e.value = v ? v : "";
		s.t.aux.push_back(e);
	}
	return s;
}

// the same through the C accessors (aux keys cannot be enumerated through the C interface)
Snapshot snapshot_c(const struct splinetable *h) {
	Snapshot s;
	s.t.ndim = splinetable_ndim(h);
	for (uint32_t i = 0; i < s.t.ndim; i++) {
		s.t.order.push_back(splinetable_order(h, i));
		s.t.naxes.push_back(splinetable_ncoeffs(h, i));
		s.strides.push_back(splinetable_stride(h, i));
		const double *k = splinetable_knots(h, i);
		s.t.knots.emplace_back(k, k + splinetable_nknots(h, i));
		s.t.extents.push_back(splinetable_lower_extent(h, i));
		s.t.extents.push_back(splinetable_upper_extent(h, i));
		s.t.periods.push_back(splinetable_period(h, i));
	}
	s.t.has_extents = s.t.has_periods = true;
	uint64_t n = s.t.ndim ? splinetable_total_ncoeffs(h) : 0;
	if (n) s.t.coeff.assign(splinetable_coefficients(h), splinetable_coefficients(h) + n);
	return s;
}

// what a correct reader must produce from an image of `spec`
TableSpec expected_after_read(const TableSpec &spec) {
	TableSpec e = spec;
	if (!e.has_extents) {
		e.has_extents = true;
		e.extents.clear();
		for (uint32_t i = 0; i < e.ndim; i++) {
			const auto &k = e.knots[i];
			e.extents.push_back(k[e.order[i]]);
			e.extents.push_back(k[k.size() - e.order[i] - 1]);
		}
	}
	if (!e.has_periods) { e.has_periods = true; e.periods.assign(e.ndim, 0.0); }
	return e;
}

bool same_floats(const std::vector<float> &a, const std::vector<float> &b) {
	if (a.size() != b.size()) return false;
	for (size_t i = 0; i < a.size(); i++) {
		if (std::isnan(a[i]) || std::isnan(b[i])) { if (!(std::isnan(a[i]) && std::isnan(b[i]))) return false; continue; }
		if (memcmp(&a[i], &b[i], 4)) return false;
	}
	return true;
}
bool same_doubles(const std::vector<double> &a, const std::vector<double> &b) {
	return a.size() == b.size() && (a.empty() || memcmp(a.data(), b.data(), a.size() * 8) == 0);
}

// core identity of a table: orders, knots, coefficients (C08's "loads equal")
std::string core_diff(const TableSpec &a, const TableSpec &b) {
	if (a.ndim != b.ndim) return "ndim";
	if (a.order != b.order) return "order";
	if (a.naxes != b.naxes) return "naxes";
	for (uint32_t i = 0; i < a.ndim; i++) if (!same_doubles(a.knots[i], b.knots[i])) return "knots";
	if (!same_floats(a.coeff, b.coeff)) return "coeff";
	return "";
}

// full field-by-field comparison (C06); `aux` false when the observer cannot list keys.
// Periods are reported separately: the property does not list them.
std::string full_diff(const TableSpec &want, const TableSpec &got, bool aux, bool *period_diff = nullptr) {
	std::string d = core_diff(want, got);
	if (!d.empty()) return d;
	if (want.has_extents && got.has_extents && !same_doubles(want.extents, got.extents)) return "extents";
	if (period_diff) *period_diff = want.has_periods && got.has_periods && !same_doubles(want.periods, got.periods);
	if (aux) {
		if (want.aux.size() != got.aux.size()) return "aux-count";
		for (size_t i = 0; i < want.aux.size(); i++) {
			if (want.aux[i].key != got.aux[i].key) return "aux-key";
			const std::string a = rstrip(want.aux[i].value), b = rstrip(got.aux[i].value);
			if (a != b) {
				// the one known way a value changes: FITS quote doubling is not undone
				std::string dbl;
				for (char c : a) { dbl += c; if (c == '\'') dbl += '\''; }
				if (a.find('\'') != std::string::npos && (b == dbl || rstrip(b) == rstrip(dbl))) return "aux-value-quote-doubled";
				return "aux-value";
			}
		}
	}
	return "";
}

std::string strides_diff(const Snapshot &s) {
	uint32_t n = s.t.ndim;
	if (s.strides.size() != n) return "strides";
	uint64_t want = 1;
	for (uint32_t i = n; i-- > 0;) {
		if (s.strides[i] != want) return "strides";
		want *= s.t.naxes[i];
	}
	return "";
}

bool has_nan(const TableSpec &t) {
	for (float f : t.coeff) if (std::isnan(f)) return true;
	for (auto &k : t.knots) for (double d : k) if (std::isnan(d)) return true;
	return false;
}

std::string clip(const std::string &s, size_t n = 160) {
	std::string r = s.size() > n ? s.substr(0, n) : s;
	for (auto &c : r) if ((unsigned char)c < 0x20 || (unsigned char)c >= 0x7f) c = '?';
	return r;
}

// ---------------------------------------------------------------- plan helpers
disk::Config config_from(const Json &j) {
	disk::Config c;
	c.bufsize = j.geti("bufsize", -1);
	c.chunk_seed = (uint64_t)j.geti("chunk_seed", 0);
	c.short_write_permille = (int)j.geti("short_write_permille", 0);
	c.short_read_permille = (int)j.geti("short_read_permille", 0);
	c.max_chunk = (uint64_t)j.geti("max_chunk", 0);
	return c;
}
Json gen_config(Rng &knob, bool benign_chunks) {
	static const int64_t bufs[] = {0, 512, 2880, 4096, 8192, 65536, -1};
	Json c = Json::object();
	c["bufsize"] = Json((long long)bufs[knob.below(7)]);
	c["chunk_seed"] = Json((long long)(knob.next() >> 20));
	static const int pm[] = {0, 0, 200, 600};
	static const int mc[] = {0, 0, 0, 1000, 4096};
	c["short_write_permille"] = Json(benign_chunks ? pm[knob.below(4)] : 0);
	c["short_read_permille"] = Json(benign_chunks ? pm[knob.below(4)] : 0);
	c["max_chunk"] = Json(benign_chunks ? mc[knob.below(5)] : 0);
	return c;
}
disk::Fault fault_from(const Json &j) {
	disk::Fault f;
	f.on = j.gets("on");
	f.at = j.geti("at");
	f.err = j.gets("err");
	f.persistent = j.getb("persistent");
	f.arg = j.geti("arg");
	return f;
}
Json fault_json(const std::string &on, int64_t at, const std::string &err, bool persistent, int64_t arg) {
	Json f = Json::object();
	f["on"] = Json(on); f["at"] = Json((long long)at); f["err"] = Json(err); f["persistent"] = Json(persistent); f["arg"] = Json((long long)arg);
	return f;
}

struct ShippedFile { std::string name; Bytes bytes; bool ok = false; };

} // namespace

namespace {

// ---------------------------------------------------------------- per-run environment
struct Env {
	RunCtx &ctx;
	Ledger &L;
	uint64_t plan_hash = 0;
	bool nontrivial = false;
	std::map<std::string, uint64_t> fired_seen;
	uint64_t looped_seen = 0;
	Env(RunCtx &c, Ledger &l) : ctx(c), L(l) {}

	void state(const std::string &op, const std::string &fault, const std::string &outcome) {
		ctx.seen("states", fnv1a(op + "|" + fault + "|" + outcome));
	}
	// Moves the simulated disk's op log into the event log. `summary` folds the
	// ops of an oracle-side read into one line (count + hash of all details).
	void drain(const char *tag, bool summary) {
		const auto &log = disk::oplog();
		uint64_t h = 0xcbf29ce484222325ULL;
		char buf[320];
		for (const auto &op : log) {
			uint64_t bh = op.bytes.empty() ? 0 : fnv1a(op.bytes.data(), op.bytes.size());
			int k = snprintf(buf, sizeof buf, "io %s %s %s h=%d mode=%s off=%llu len=%llu done=%llu -> %s%s%s data=%016llx", tag,
			                 disk::kind_name(op.kind), op.path.c_str(), op.handle, op.mode.c_str(), (unsigned long long)op.off,
			                 (unsigned long long)op.len, (unsigned long long)op.done, disk::errno_name(op.err),
			                 op.fault.empty() ? "" : " fault=", op.fault.c_str(), (unsigned long long)bh);
			if (summary) h = fnv1a(buf, (size_t)k, h); else ctx.log.evs(std::string(buf, (size_t)k));
			ctx.count(std::string("ops:") + disk::kind_name(op.kind));
		}
		ctx.count("steps", (int64_t)log.size());
		if (summary) ctx.log.ev("io %s ops=%zu h=%016llx", tag, log.size(), (unsigned long long)h);
		disk::clear_oplog();
		for (auto &kv : disk::fired()) {
			uint64_t &seen = fired_seen[kv.first];
			if (kv.second > seen) {
				ctx.count("fault:" + kv.first, (int64_t)(kv.second - seen));
				ctx.log.ev("fault fired %s x%llu", kv.first.c_str(), (unsigned long long)(kv.second - seen));
				seen = kv.second;
				nontrivial = true;
			}
		}
		uint64_t lp = disk::stats().short_writes_looped;
		if (lp > looped_seen) { ctx.count("probe:short_write_looped", (int64_t)(lp - looped_seen)); looped_seen = lp; }
	}
	void finish() {
		if (nontrivial) ctx.seen("nontrivial", plan_hash);
		const auto &c = L.counters();
		ctx.count("alloc:allocs", (int64_t)c.allocs);
		ctx.count("alloc:hard_cap_refused", (int64_t)c.hard_cap_refused);
		ctx.stats ? ctx.stats->max("alloc_peak_bytes", (int64_t)L.peak_bytes()) : void();
	}
};

// ---------------------------------------------------------------- guarded execution
// Runs `fn` in a forked child with stderr silenced and reports how the child
// ended: "" = it returned, otherwise "crash:sanitizer" / "crash:sigN" /
// "crash:exitN". Used where a precondition makes undefined behaviour likely, so
// that the state is *recognised* (and reported as a violation) instead of
// killing the batch process. The child never returns into the harness.
std::string dies_in_child(const std::function<void()> &fn) {
	fflush(stdout); fflush(stderr);
	pid_t pid = fork();
	if (pid < 0) return "";
	if (pid == 0) {
		int nul = open("/dev/null", O_WRONLY);
		if (nul >= 0) { dup2(nul, 2); dup2(nul, 1); }
		alarm(20);
		fn();
		_exit(0);
	}
	int status = 0;
	while (waitpid(pid, &status, 0) < 0) {}
	if (WIFEXITED(status) && WEXITSTATUS(status) == 0) return "";
	char b[48];
	if (WIFSIGNALED(status)) snprintf(b, sizeof b, "crash:sig%d", WTERMSIG(status));
	else if (WEXITSTATUS(status) == 77) snprintf(b, sizeof b, "crash:sanitizer");
	else snprintf(b, sizeof b, "crash:exit%d", WEXITSTATUS(status));
	return b;
}

// ---------------------------------------------------------------- readers
struct ReadOutcome {
	bool ok = false;
	std::string what;     // exception text / status
};

ReadOutcome cxx_read_disk(Tab &t, const std::string &path) {
	ReadOutcome r;
	try { t.read_fits(path); r.ok = true; }
	catch (std::exception &e) { r.what = e.what(); }
	catch (...) { r.what = "non-std exception"; }
	return r;
}
ReadOutcome cxx_read_mem(Tab &t, const Bytes &img) {
	ReadOutcome r;
	Bytes copy = img;                       // exact-size heap copy: an over-read is an ASan report
	unsigned char dummy = 0;
	void *p = copy.empty() ? (void *)&dummy : (void *)copy.data();
	try { t.read_fits_mem(p, copy.size()); r.ok = true; }
	catch (std::exception &e) { r.what = e.what(); }
	catch (...) { r.what = "non-std exception"; }
	return r;
}

// Largest single array a reader would have to allocate for this image, judged
// from the headers alone (used to keep default-allocator reads, where ASan
// turns an over-large operator new into a fatal report instead of
// std::bad_alloc, away from such images; the SimAlloc readers take them).
uint64_t alloc_hint(const Bytes &img) {
	std::vector<Hdu> hdus;
	std::string err;
	scan_hdus(img, hdus, err);
	uint64_t m = 0;
	for (auto &h : hdus) {
		long double n = h.naxis.empty() ? 0 : 1;
		for (auto a : h.naxis) n *= (long double)a;
		n *= 8;
		if (n > 1e18L) return UINT64_MAX;
		if ((uint64_t)n > m) m = (uint64_t)n;
	}
	// a header that could not be delimited may still carry huge NAXISn cards
	for (size_t off = 0; off + 80 <= img.size() && off < 64 * 2880; off += 80) {
		if (memcmp(img.data() + off, "NAXIS", 5) == 0) {
			Card c = parse_card(std::string((const char *)img.data() + off, 80));
			if (c.has_value && !c.is_string && c.value.size() > 7) return UINT64_MAX;
		}
		if (memcmp(img.data() + off, "ORDER", 5) == 0) {
			// the order enters the size of every knot array (nknots + 2*order); a negative
			// value is read into an unsigned field
			std::string v = rstrip(std::string((const char *)img.data() + off + 9, 71));
			size_t sl = v.find('/');
			if (sl != std::string::npos) v = rstrip(v.substr(0, sl));
			size_t a = v.find_first_not_of(' ');
			v = a == std::string::npos ? "" : v.substr(a);
			bool small = !v.empty() && v.size() <= 6;
			for (char ch : v) if (!isdigit((unsigned char)ch)) small = false;
			if (!small) return UINT64_MAX;
		}
	}
	return m;
}

// Preconditions under which the reader is known to run into undefined
// behaviour or to abort the process. They are recognised on the image with a
// cfitsio-like header walk (cards up to the END card, whatever lies in between)
// and the read is then first tried in a forked child:
//  named-hdu-not-1d    read_fits_core looks the knot / extent extensions up by
//                      name and reads them with a one-element pixel index;
//                      cfitsio copies NAXIS elements from it (stack over-read)
//                      when the HDU found (possibly the primary HDU, if an
//                      EXTNAME card ended up in its header) has NAXIS > 1
//  long-order-value    an ORDER/ORDERn value of >= 28 characters that is not an
//                      integer overflows cfitsio's 81-byte message buffer in
//                      ffc2j (strncat; glibc's fortify check aborts the process)
//  order-wraps         ORDERn >= 2^31: `2*order` wraps in 32 bits, the knot
//                      array is allocated too small and addressed at +order
struct Hazard { std::string cls, what; };
Hazard reader_hazard(const Bytes &img) {
	Hazard hz;
	size_t off = 0, size = img.size();
	int hdu = 0;
	auto value_of = [&](const uint8_t *card) -> std::string {
		std::string v((const char *)card + 10, 70);
		size_t a = v.find_first_not_of(' ');
		if (a == std::string::npos) return "";
		v = v.substr(a);
		if (v[0] == '\'') { size_t e = v.find('\'', 1); return v.substr(0, e == std::string::npos ? v.size() : e + 1); }
		size_t sl = v.find('/');
		if (sl != std::string::npos) v = v.substr(0, sl);
		return rstrip(v);
	};
	while (off + 2880 <= size && hdu < 1000) {
		long long naxis = -1, bitpix = 0, pcount = 0, gcount = 1;
		long long dims[8] = {0, 0, 0, 0, 0, 0, 0, 0};
		bool named = false, end = false;
		std::string nm;
		size_t p = off;
		for (; p + 80 <= size; p += 80) {
			const uint8_t *c = img.data() + p;
			if (memcmp(c, "END     ", 8) == 0) { end = true; p += 80; break; }
			if (hdu == 0 && memcmp(c, "ORDER", 5) == 0 && c[8] != '=') {
				// damaged value indicator: cfitsio still hands the rest of the card to its integer parser
				std::string v = rstrip(std::string((const char *)c + 8, 72));
				if (v.size() >= 28 && hz.cls.empty()) { hz.cls = "long-order-value"; hz.what = "an ORDER card without value indicator carries " + std::to_string(v.size()) + " characters of text"; }
				continue;
			}
			if (c[8] != '=') continue;
			if (memcmp(c, "NAXIS   ", 8) == 0) { if (naxis < 0) naxis = atoll(value_of(c).c_str()); }
			else if (memcmp(c, "NAXIS", 5) == 0 && c[5] >= '1' && c[5] <= '8' && c[6] == ' ') { if (!dims[c[5] - '1']) dims[c[5] - '1'] = atoll(value_of(c).c_str()); }
			else if (memcmp(c, "BITPIX  ", 8) == 0) { if (!bitpix) bitpix = atoll(value_of(c).c_str()); }
			else if (memcmp(c, "PCOUNT  ", 8) == 0) pcount = atoll(value_of(c).c_str());
			else if (memcmp(c, "GCOUNT  ", 8) == 0) gcount = atoll(value_of(c).c_str());
			else if (memcmp(c, "EXTNAME ", 8) == 0 || memcmp(c, "HDUNAME ", 8) == 0) {
				std::string n = value_of(c);
				std::string u;
				for (char ch : n) if (ch != '\'' ) u += (char)toupper((unsigned char)ch);
				u = rstrip(u);
				if (u == "EXTENTS" || (u.compare(0, 5, "KNOTS") == 0 && u.size() > 5)) { named = true; nm = u; }
			} else if (hdu == 0 && memcmp(c, "ORDER", 5) == 0) {
				std::string v = value_of(c);
				bool digits = !v.empty();
				for (size_t i = 0; i < v.size(); i++) if (!(isdigit((unsigned char)v[i]) || (i == 0 && (v[i] == '-' || v[i] == '+')))) digits = false;
				if (!digits && v.size() >= 28 && hz.cls.empty()) { hz.cls = "long-order-value"; hz.what = "an ORDER card carries a " + std::to_string(v.size()) + "-character non-integer value"; }
				if (digits && v.size() >= 10 && v.size() < 19 && atoll(v.c_str()) >= 2147483648LL && atoll(v.c_str()) <= 4294967295LL && hz.cls.empty()) { hz.cls = "order-wraps"; hz.what = "an ORDER card carries " + v + " (2*order wraps in 32 bits)"; }
			}
		}
		if (!end) break;
		if (named && naxis != 1) { hz.cls = "named-hdu-not-1d"; hz.what = "HDU " + std::to_string(hdu) + " named " + nm + " has NAXIS=" + std::to_string(naxis); return hz; }
		long double n = naxis > 0 ? 1 : 0;
		for (long long i = 0; i < naxis && i < 8; i++) n *= (long double)dims[i];
		long double bytes = (long double)(bitpix < 0 ? -bitpix : bitpix) / 8 * (long double)gcount * ((long double)pcount + n);
		if (bytes < 0 || bytes > 1e15L) break;
		size_t hdr_end = (p - off + 2879) / 2880 * 2880 + off;
		off = hdr_end + (size_t)(((unsigned long long)bytes + 2879) / 2880 * 2880);
		hdu++;
	}
	return hz;
}

// verdict on an image found on disk after a crash or a failed write (C08)
enum Verdict { V_REJECTED, V_EQUAL, V_DIFFERENT, V_READER_CRASH };
const char *verdict_name(Verdict v) { return v == V_REJECTED ? "rejected" : v == V_EQUAL ? "equal" : v == V_DIFFERENT ? "different" : "reader-crash"; }

struct ImageCheck {
	Verdict v = V_REJECTED;
	std::string what;
};

// Reads `img` with the library (disk or memory reader, SimAlloc table) and
// compares orders / knots / coefficients with `table`. A reader that fails
// leaving a half-built object is C07's concern; here the object is abandoned.
ImageCheck check_image(Env &env, const disk::Image &img, const TableSpec &table, bool mem) {
	ImageCheck r;
	if (!img.exists) { r.what = "no file"; return r; }
	// cfitsio's memory driver does not check record reads against the buffer size:
	// an image that is shorter than its headers claim makes it read past the
	// caller's buffer (reported under C07). Oracle-side reads use the memory
	// reader only for images that are structurally complete; the others go
	// through the disk reader, which sees a proper end of file.
	if (mem) {
		std::vector<Hdu> hd; std::string e2;
		if (img.bytes.size() % 2880 || !scan_hdus(img.bytes, hd, e2)) { mem = false; env.ctx.count("c08:mem_verify_rerouted_to_disk"); }
	}
	// an image on which the reader is known to run into undefined behaviour is
	// first read in a forked child; if the child dies the verdict is "reader-crash"
	// (C07's finding; for C08 such an image is not "loaded as a different table")
	{
		Hazard hz = reader_hazard(img.bytes);
		if (!hz.cls.empty()) {
			env.ctx.count("probe:verify_hazard_probed_in_child");
			std::string how = dies_in_child([&]() {
				Ledger l2; Ledger::Scope sc2(l2);
				disk::put("/sim/crash.fits", img.bytes);
				alignas(Tab) static unsigned char raw[sizeof(Tab)];
				Tab *t = new (raw) Tab(SimAlloc<void>(l2.new_owner()));
				try { t->read_fits("/sim/crash.fits"); } catch (...) {}
			});
			if (!how.empty()) { r.v = V_READER_CRASH; r.what = hz.what + ": " + how; env.ctx.count("probe:verify_reader_crash"); return r; }
		}
	}
	if (const char *dump = getenv("PSV_DUMP")) {   // debugging aid: the image about to be read
		std::ofstream f(dump, std::ios::binary);
		f.write((const char *)img.bytes.data(), (std::streamsize)img.bytes.size());
	}
	TabBox box(env.L);
	Tab &t = box.make();
	ReadOutcome ro;
	if (mem) ro = cxx_read_mem(t, img.bytes);
	else {
		disk::put("/sim/crash.fits", img.bytes);
		ro = cxx_read_disk(t, "/sim/crash.fits");
		env.drain("verify", true);
	}
	if (!ro.ok) {
		r.what = ro.what;
		if (t.get_ndim() != 0) { box.abandon(); env.ctx.count("probe:verify_reader_left_halfbuilt"); }
		return r;
	}
	Snapshot s = snapshot(t);
	std::string d = core_diff(table, s.t);
	r.v = d.empty() ? V_EQUAL : V_DIFFERENT;
	r.what = d;
	return r;
}

// ---------------------------------------------------------------- battery (C07, well-formed tables only)
struct CxxAdapter {
	const Tab &t;
	bool search(const double *x, int *c) const { return t.searchcenters(x, c); }
	double eval(const double *x, const int *c, int mask) const { return t.ndsplineeval(x, c, mask); }
	void grad(const double *x, const int *c, double *out) const { t.ndsplineeval_gradient(x, c, out); }
	double deriv(const double *x, const int *c, const unsigned *d) const { return t.ndsplineeval_deriv(x, c, d); }
	double call(const double *x) const { return t(x); }
};
struct CAdapter {
	const struct splinetable *h;
	bool search(const double *x, int *c) const { return tablesearchcenters(h, x, c) != 0; }
	double eval(const double *x, const int *c, int mask) const { return ndsplineeval(h, x, c, mask); }
	void grad(const double *x, const int *c, double *out) const { ndsplineeval_gradient(h, x, c, out); }
	double deriv(const double *x, const int *c, const unsigned *d) const { return ndsplineeval_deriv(h, x, c, d); }
	double call(const double *x) const { int c[64]; if (!tablesearchcenters(h, x, c)) return 0; return ndsplineeval(h, x, c, 0); }
};

std::vector<double> candidates(const TableSpec &t, uint32_t d, Rng &r) {
	const auto &k = t.knots[d];
	size_t n = k.size();
	uint32_t o = t.order[d];
	std::vector<double> base = {k[0], k[std::min<size_t>(o, n - 1)], k[n / 2], k[std::min<size_t>((size_t)t.naxes[d], n - 1)], k[n - 1], k[r.below(n)], k[r.below(n)]};
	std::vector<double> c;
	for (double b : base) { c.push_back(b); c.push_back(std::nextafter(b, INFINITY)); c.push_back(std::nextafter(b, -INFINITY)); }
	c.push_back(0.5 * (k[0] + k[n - 1]));
	c.push_back(k[0] + (k[n - 1] - k[0]) * r.unit());
	c.push_back(k[0] - 1.0); c.push_back(k[n - 1] + 1.0);
	c.push_back(t.extents.size() > 2 * d + 1 ? t.extents[2 * d] : 0.0);
	c.push_back(t.extents.size() > 2 * d + 1 ? t.extents[2 * d + 1] : 0.0);
	c.push_back(INFINITY); c.push_back(-INFINITY); c.push_back(DBL_MAX); c.push_back(-DBL_MAX); c.push_back(0.0);
	return c;
}

// Lookup and evaluation at boundary-heavy points. Results are folded into the
// event log as bit patterns (NaNs by class), so the battery is also part of
// the determinism witness. Exceptions are legal outcomes.
// Returns false when a violation was reported (the battery stops there).
template <class A>
bool battery_eval(Env &env, const A &a, const TableSpec &t, uint64_t seed, int npoints, const char *tag, bool fold_values, bool with_nan, const std::string &sig_op) {
	Rng r(seed, "battery");
	uint32_t nd = t.ndim;
	std::vector<std::vector<double>> cand;
	for (uint32_t d = 0; d < nd; d++) cand.push_back(candidates(t, d, r));
	std::vector<double> x(nd), g(nd + 1);
	std::vector<int> c(nd + 64);
	std::vector<unsigned> dv(nd);
	uint64_t h = 0xcbf29ce484222325ULL;
	// default-allocator tables keep uninitialised padding around their knot
	// vectors, so values computed near the edges are not a function of the plan:
	// for them only the lookup results are folded
	auto fold0 = [&](double v) { uint64_t u; if (std::isnan(v)) u = 0x7ff8000000000000ULL; else memcpy(&u, &v, 8); h = fnv1a(&u, 8, h); };
	auto fold = [&](double v) { if (fold_values) fold0(v); };
	int found = 0, threw = 0;
	for (int p = 0; p < npoints; p++) {
		bool inside = p % 3 != 0;   // two thirds of the points: interior coordinates except one boundary-ish one
		uint32_t special = (uint32_t)r.below(nd);
		for (uint32_t d = 0; d < nd; d++) {
			const auto &k = t.knots[d];
			if (inside && d != special) x[d] = k[0] + (k[k.size() - 1] - k[0]) * r.unit();
			else x[d] = cand[d][r.below(cand[d].size())];
		}
		// NaN coordinates: one point of the battery, only when the plan asks for it
		bool nan_point = with_nan && p == npoints / 2;
		if (nan_point) x[special] = NAN;
		env.ctx.crumb("battery|%s|searchcenters", tag);
		bool ok = a.search(x.data(), c.data());
		fold0(ok ? 1.0 : 0.0);
		if (!ok) continue;
		found++;
		for (uint32_t d = 0; d < nd; d++) fold0((double)c[d]);
		// evaluation indexes the coefficient array from the centres: outside
		// [order, naxes-1] it reads out of bounds, so that state is reported here
		for (uint32_t d = 0; d < nd; d++) {
			if (c[d] < (int)t.order[d] || c[d] > (int)t.naxes[d] - 1) {
				env.ctx.log.ev("battery %s: searchcenters accepted x[%u]=%s with centre %d outside [%u,%lld]", tag, d, std::isnan(x[d]) ? "nan" : "finite", c[d], t.order[d], (long long)t.naxes[d] - 1);
				env.ctx.violate("C07|battery|" + sig_op + "|" + (nan_point ? "nan-coordinate" : "finite-coordinate") + "|lookup-accepts-centre-out-of-range",
				                "searchcenters returned success with centre " + std::to_string(c[d]) + " in a dimension with order " + std::to_string(t.order[d]) + " and " + std::to_string(t.naxes[d]) +
				                " coefficients; evaluating there indexes the coefficient array out of bounds");
				return false;
			}
		}
		try {
			env.ctx.crumb("battery|%s|ndsplineeval", tag);
			fold(a.eval(x.data(), c.data(), 0));
			if (nd <= 30) {
				// derivatives only along dimensions of order >= 1: for order 0 the
				// library's derivative kernel declares a zero-length VLA and leaves its
				// output unwritten (an evaluation defect outside C06-C08, see notes)
				uint32_t dd = (uint32_t)r.below(nd);
				if (t.order[dd] > 0) fold(a.eval(x.data(), c.data(), 1 << dd));
				int all = 0;
				for (uint32_t d = 0; d < nd; d++) if (t.order[d] > 0) all |= 1 << d;
				fold(a.eval(x.data(), c.data(), all));
			}
			env.ctx.crumb("battery|%s|operator()", tag);
			fold(a.call(x.data()));
			env.ctx.crumb("battery|%s|ndsplineeval_deriv", tag);
			for (uint32_t d = 0; d < nd; d++) { dv[d] = (unsigned)r.below(3); if (t.order[d] == 0) dv[d] = 0; }
			fold(a.deriv(x.data(), c.data(), dv.data()));
			fold(a.deriv(x.data(), c.data(), nullptr));
		} catch (std::exception &) { threw++; }
		try {
			env.ctx.crumb("battery|%s|ndsplineeval_gradient", tag);
			a.grad(x.data(), c.data(), g.data());
			for (uint32_t d = 0; d <= nd; d++) fold(g[d]);
		} catch (std::exception &) { threw++; }
	}
	env.ctx.log.ev("battery %s points=%d found=%d threw=%d h=%016llx", tag, npoints, found, threw, (unsigned long long)h);
	env.ctx.count("battery:points", npoints);
	env.ctx.count("battery:lookups_ok", found);
	return true;
}

// the evaluator front end of the C++ class (optimised kernels)
void battery_evaluator(Env &env, const Tab &tab, const TableSpec &t, uint64_t seed, int npoints) {
	Rng r(seed, "battery-ev");
	uint32_t nd = t.ndim;
	std::vector<double> x(nd), g(nd + 1);
	std::vector<int> c(nd + 64);
	std::vector<unsigned> dv(nd);
	uint64_t h = 0xcbf29ce484222325ULL;
	auto fold = [&](double v) { uint64_t u; if (std::isnan(v)) u = 0x7ff8000000000000ULL; else memcpy(&u, &v, 8); h = fnv1a(&u, 8, h); };
	int threw = 0;
	try {
		env.ctx.crumb("battery|evaluator|get_evaluator");
		auto ev = tab.get_evaluator();
		for (int p = 0; p < npoints; p++) {
			for (uint32_t d = 0; d < nd; d++) {
				const auto &k = t.knots[d];
				x[d] = r.chance(0.2) ? k[r.below(k.size())] : k[0] + (k[k.size() - 1] - k[0]) * r.unit();
			}
			env.ctx.crumb("battery|evaluator|searchcenters");
			if (!ev.searchcenters(x.data(), c.data())) { fold(0); continue; }
			bool in_range = true;
			for (uint32_t d = 0; d < nd; d++) if (c[d] < (int)t.order[d] || c[d] > (int)t.naxes[d] - 1) in_range = false;
			if (!in_range) { env.ctx.count("probe:evaluator_centre_out_of_range"); continue; }
			try {
				env.ctx.crumb("battery|evaluator|ndsplineeval");
				fold(ev.ndsplineeval(x.data(), c.data(), 0));
				uint32_t dd = (uint32_t)r.below(nd);
				if (nd <= 30 && t.order[dd] > 0) fold(ev.ndsplineeval(x.data(), c.data(), 1 << dd));
				fold(ev(x.data()));
				for (uint32_t d = 0; d < nd; d++) { dv[d] = (unsigned)r.below(3); if (t.order[d] == 0) dv[d] = 0; }
				env.ctx.crumb("battery|evaluator|ndsplineeval_deriv");
				fold(ev.ndsplineeval_deriv(x.data(), c.data(), dv.data()));
				env.ctx.crumb("battery|evaluator|ndsplineeval_gradient");
				ev.ndsplineeval_gradient(x.data(), c.data(), g.data());
				for (uint32_t d = 0; d <= nd; d++) fold(g[d]);
			} catch (std::exception &) { threw++; }
		}
	} catch (std::exception &) { threw++; }
	env.ctx.log.ev("battery evaluator points=%d threw=%d h=%016llx", npoints, threw, (unsigned long long)h);
}

} // namespace

namespace {

// ---------------------------------------------------------------- the harness
struct IoHarness : Harness {
	std::vector<ShippedFile> shipped;
	Json golden;          // {"files": {name: {"digest": hex, ...}}}
	bool golden_loaded = false;

	const char *name() const override { return "psv_io"; }
	bool serves(const std::string &p) const override { return p == "C06" || p == "C07" || p == "C08"; }
	// runs take milliseconds (C06, C07) to a few seconds (C08 enumerations of large tables, thorough)
	unsigned watchdog_s(const std::string &p, const std::string &tier) const override { return p == "C08" ? (tier == "thorough" ? 600 : 180) : 90; }

	void init() override {
		shipped.clear();
		for (size_t i = 0; i < N_SHIPPED; i++) {
			ShippedFile f;
			f.name = SHIPPED[i];
			f.ok = slurp(repo_dir() + "/test/test_data/" + f.name, f.bytes);
			shipped.push_back(f);
		}
		try { golden = Json::load(golden_path()); golden_loaded = golden.has("files"); } catch (...) { golden_loaded = false; }
	}
	const ShippedFile *find_shipped(const std::string &n) const {
		for (auto &f : shipped) if (f.name == n) return &f;
		return nullptr;
	}

	// base table of a plan: generated description or one of the shipped files
	bool plan_table(const Json &plan, TableSpec &spec, Bytes &img, std::string &err) const {
		if (plan.has("shipped")) {
			const ShippedFile *f = find_shipped(plan.gets("shipped"));
			if (!f || !f->ok) { err = "shipped file " + plan.gets("shipped") + " not readable under " + repo_dir(); return false; }
			img = f->bytes;
			return decode_fits(img, spec, err);
		}
		if (plan.has("spec")) {
			if (!TableSpec::from_json(plan["spec"], spec, err)) return false;
		} else {
			TableDesc d;
			if (!TableDesc::from_json(plan["table"], d, err)) return false;
			spec = realize(d);
		}
		img = encode_fits(spec);
		return true;
	}

	Json generate(const std::string &prop, uint64_t runseed, const std::string &tier) override {
		if (prop == "C08") return gen_c08(runseed, tier);
		if (prop == "C07") return gen_c07(runseed, tier);
		return gen_c06(runseed, tier);
	}
	void execute(const Json &plan, RunCtx &ctx) override {
		disk::reset();
		Ledger L;
		Ledger::Scope scope(L);
		Env env(ctx, L);
		env.plan_hash = hash_json(plan);
		std::string prop = plan.gets("prop", ctx.prop);
		ctx.log.ev("run %s plan=%016llx", prop.c_str(), (unsigned long long)env.plan_hash);
		if (prop == "C08") exec_c08(plan, env);
		else if (prop == "C07") exec_c07(plan, env);
		else if (prop == "C06") exec_c06(plan, env);
		else ctx.violate(prop + "|setup|plan|none|unknown-property", "plan names a property this harness does not serve");
		env.finish();
		disk::reset();
	}

	// ============================================================ C08
	Json gen_c08(uint64_t runseed, const std::string &tier);
	void exec_c08(const Json &plan, Env &env);
	// ============================================================ C07
	Json gen_c07(uint64_t runseed, const std::string &tier);
	void exec_c07(const Json &plan, Env &env);
	// ============================================================ C06
	Json gen_c06(uint64_t runseed, const std::string &tier);
	void exec_c06(const Json &plan, Env &env);

	std::vector<Json> simplify(const Json &plan, const Json &aux) override;
};

// ================================================================= C08
const char *const WRITE_ERRS[] = {"ENOSPC", "EFBIG", "EIO", "EINTR", "short_ENOSPC", "short_EIO", "lost_EIO"};

Json gen_fault(Rng &fr) {
	int w = (int)fr.below(100);
	int64_t at = (int64_t)fr.below(1000);
	bool pers = fr.chance(0.35);
	int64_t arg = (int64_t)fr.below(1 << 20);
	if (w < 45) { const char *e = WRITE_ERRS[fr.below(7)]; return fault_json("write", at, e, pers && strncmp(e, "lost_", 5) != 0, arg); }
	if (w < 55) return fault_json("quota", 0, fr.chance(0.7) ? "ENOSPC" : "EFBIG", true, arg);
	if (w < 70) return fault_json("close", at, fr.chance(0.5) ? "EIO" : "ENOSPC", pers, 0);
	if (w < 80) return fault_json("seek", at, "EIO", pers, 0);
	if (w < 88) { static const char *e[] = {"ENOENT", "EACCES", "EMFILE"}; return fault_json("open", at, e[fr.below(3)], pers, 0); }
	if (w < 90) return fault_json("remove", at, "EACCES", pers, 0);
	if (w < 92) { static const char *e[] = {"ENOSPC", "EACCES", "EXDEV"}; return fault_json("rename", at, e[fr.below(3)], pers, 0); }
	if (w < 98) { static const char *e[] = {"EIO", "eof", "short"}; return fault_json("read", at, e[fr.below(3)], pers, arg); }
	return fault_json("truncate", at, fr.chance(0.5) ? "EIO" : "ENOSPC", pers, 0);
}

Json IoHarness::gen_c08(uint64_t runseed, const std::string &tier) {
	Rng gen(runseed, "gen"), fr(runseed, "fault"), knob(runseed, "knob");
	bool thorough = tier == "thorough";
	Json plan = Json::object();
	plan["prop"] = Json("C08");
	GenLimits lim;
	lim.max_dims = 5;
	lim.max_aux = 40;
	lim.quote_permille = 0;     // quote handling is C06/C16 business; keep C08 tables loadable and re-writable
	double u = gen.unit();
	double p_small = thorough ? 0.30 : 0.55, p_med = thorough ? 0.40 : 0.35;
	int size_class = u < p_small ? 0 : u < p_small + p_med ? 1 : 2;
	if (size_class == 0) { lim.min_coeffs = 1; lim.max_coeffs = 6000; }
	else if (size_class == 1) { lim.min_coeffs = 28000; lim.max_coeffs = 90000; lim.max_order = 3; }
	else { lim.min_coeffs = 90000; lim.max_coeffs = 280000; lim.max_order = 3; }
	TableDesc d = gen_table(gen, lim);
	// many keys on purpose in a third of the tables: header-block insertion needs > 36 cards
	if (gen.chance(0.35)) d.naux = 24 + (int)gen.below(17);
	plan["table"] = d.to_json();
	plan["config"] = gen_config(knob, true);
	plan["writer"] = Json(gen.chance(0.75) ? "cxx" : "c");
	// A third of the runs write over a file that already exists at the target path: the same shape with other
	// coefficients (so that any blend of old and new bytes is a structurally valid file), or an unrelated table.
	// Drawn from its own stream so that the rest of the plan does not depend on it.
	{
		Rng pre(runseed, "preexisting");
		if (pre.chance(0.33)) {
			if (pre.chance(0.6)) plan["preexisting"] = Json("same_shape");
			else {
				plan["preexisting"] = Json("other");
				GenLimits l2;
				l2.max_dims = 4; l2.max_aux = 12; l2.quote_permille = 0; l2.max_order = 3;
				int sc = (int)pre.below(3);
				if (sc == 0) { l2.min_coeffs = 1; l2.max_coeffs = 3000; }
				else if (sc == 1) { l2.min_coeffs = 3000; l2.max_coeffs = 40000; }
				else { l2.min_coeffs = 40000; l2.max_coeffs = 200000; }
				plan["old_table"] = gen_table(pre, l2).to_json();
			}
		}
	}
	Json ops = Json::array();
	bool crash_arm = gen.chance(0.5);
	if (crash_arm) {
		Json o = Json::object();
		o["op"] = Json("crash_enum");
		o["cuts"] = Json("std");
		o["random_cuts"] = Json(thorough ? 4 : 1);
		o["cut_seed"] = Json((long long)(fr.next() >> 20));
		int maxi = size_class == 0 ? (thorough ? 4000 : 160) : size_class == 1 ? (thorough ? 600 : 70) : (thorough ? 300 : 40);
		o["max_images"] = Json(maxi);
		o["reader"] = Json("both");
		ops.push(o);
	} else if (thorough && gen.chance(0.6)) {
		Json o = Json::object();
		o["op"] = Json("fault_enum");
		o["order_seed"] = Json((long long)(fr.next() >> 20));
		o["max"] = Json(size_class == 0 ? 400 : 120);
		ops.push(o);
	} else {
		int n = thorough ? 30 : (size_class == 0 ? 12 : 6);
		for (int i = 0; i < n; i++) {
			Json o = Json::object();
			o["op"] = Json("fault");
			Json fl = Json::array();
			fl.push(gen_fault(fr));
			o["faults"] = fl;
			ops.push(o);
		}
		// Growth failures of the memory file behind write_fits_mem ("mem_fault" ops, wrapped
		// realloc) are implemented but not generated: after a failed growth cfitsio carries
		// on with indeterminate HDU state, so the outcome (success with a short buffer, or
		// a stack overflow in fits_write_pix) depends on heap history and would make runs
		// irreproducible across batch partitions. See notes/io-findings.md.
		if (false && fr.chance(0.3)) {
			Json o = Json::object();
			o["op"] = Json("mem_fault");
			o["at"] = Json((long long)fr.below(1000));
			o["persistent"] = Json(fr.chance(0.4));
			// first or last, so that the file faults do not always shadow it
			if (fr.chance(0.3)) ops.a.insert(ops.a.begin(), o); else ops.push(o);
		}
	}
	plan["ops"] = ops;
	return plan;
}

// writer front ends ----------------------------------------------------------
struct WriteResult { bool ok = false; std::string what; };

struct Writer {
	bool c_api = false;
	TabBox *box = nullptr;              // cxx
	struct splinetable handle{nullptr}; // c
	const char *opname() const { return c_api ? "writesplinefitstable" : "write_fits"; }
	WriteResult write(const std::string &path) {
		WriteResult r;
		if (c_api) {
			int rc = writesplinefitstable(path.c_str(), &handle);
			r.ok = rc == 0;
			if (rc) r.what = "status " + std::to_string(rc);
			return r;
		}
		try { box->get().write_fits(path); r.ok = true; }
		catch (std::exception &e) { r.what = e.what(); }
		catch (...) { r.what = "non-std exception"; }
		return r;
	}
};

std::string on_class(const Json &faults) {
	std::string on = faults.size() ? faults.a[0].gets("on") : "none";
	if (on == "quota") on = "write";
	return on;
}

void IoHarness::exec_c08(const Json &plan, Env &env) {
	RunCtx &ctx = env.ctx;
	TableSpec spec;
	Bytes img;
	std::string err;
	if (!plan_table(plan, spec, img, err)) { ctx.violate("C08|setup|plan|none|bad-plan", err); return; }
	disk::Config cfg = config_from(plan["config"]);
	disk::put("/sim/a.fits", img);
	Writer w;
	w.c_api = plan.gets("writer", "cxx") == "c";
	TabBox ref(env.L);
	TableSpec table;     // the table being written, as the library holds it
	ctx.crumb("setup|read reference");
	if (w.c_api) {
		if (readsplinefitstable("/sim/a.fits", &w.handle) != 0) { env.drain("setup", true); ctx.violate("C08|setup|readsplinefitstable|none|reference-load-failed", "generated image not readable"); return; }
		table = snapshot_c(&w.handle).t;
	} else {
		ReadOutcome ro = cxx_read_disk(ref.make(), "/sim/a.fits");
		if (!ro.ok) { env.drain("setup", true); if (ref.get().get_ndim()) ref.abandon(); ctx.violate("C08|setup|read_fits|none|reference-load-failed", ro.what); return; }
		w.box = &ref;
		table = snapshot(ref.get()).t;
	}
	env.drain("setup", true);
	struct Cleanup { Writer &w; ~Cleanup() { if (w.c_api && w.handle.data) splinetable_free(&w.handle); } } cleanup{w};
	const std::string out = "/sim/out.fits";
	const char *opn = w.opname();

	// ---- a file that already exists at the target path (optional). It is produced by the library's own
	// writer from a second table, so that its layout is exactly what the writer under test produces.
	disk::Image old;
	std::string pre = plan.gets("preexisting", "none");
	if (pre != "none") {
		TableSpec os;
		bool have = true;
		if (pre == "same_shape") {
			os = table;
			for (auto &c : os.coeff) c = -c + 1.0f;
			if (!os.coeff.empty()) os.coeff[0] = (table.coeff[0] == 7.25f) ? 8.5f : 7.25f;
			os.aux = spec.aux;
		} else {
			TableDesc od;
			if (TableDesc::from_json(plan["old_table"], od, err)) os = realize(od); else have = false;
		}
		if (have) {
			ctx.crumb("setup|write pre-existing file");
			disk::put("/sim/o.fits", encode_fits(os));
			TabBox ob(env.L);
			ReadOutcome ro = cxx_read_disk(ob.make(), "/sim/o.fits");
			if (ro.ok) {
				try { ob.get().write_fits("/sim/old.fits"); old.exists = disk::get("/sim/old.fits", old.bytes); } catch (std::exception &) {}
			} else if (ob.get().get_ndim()) ob.abandon();
			env.drain("setup", true);
			disk::unlink("/sim/o.fits"); disk::unlink("/sim/old.fits");
		}
		if (old.exists) { ctx.count(std::string("c08:preexisting_") + pre); ctx.log.ev("pre-existing file kind=%s bytes=%zu", pre.c_str(), old.bytes.size()); }
		else ctx.log.ev("pre-existing file kind=%s could not be produced; target starts absent", pre.c_str());
	}
	auto reset_target = [&]() { disk::unlink(out); if (old.exists) disk::put(out, old.bytes); };

	// ---- step 1: fault-free recording
	reset_target();
	disk::set_config(cfg);
	disk::clear_oplog();
	ctx.crumb("%s|none|record", opn);
	WriteResult wr = w.write(out);
	std::vector<disk::Op> L = disk::oplog();
	env.drain("record", false);
	disk::set_config(disk::Config());
	if (!wr.ok) { ctx.violate(std::string("C08|record|") + opn + "|none|fault-free-write-failed", wr.what); return; }
	Bytes final_img;
	if (!disk::get(out, final_img)) { ctx.violate(std::string("C08|record|") + opn + "|none|fault-free-write-left-no-file", ""); return; }
	{
		disk::Image fi; fi.exists = true; fi.bytes = final_img;
		ImageCheck ic = check_image(env, fi, table, false);
		ctx.log.ev("record ops=%zu bytes=%zu readback=%s", L.size(), final_img.size(), verdict_name(ic.v));
		if (ic.v != V_EQUAL) { ctx.violate(std::string("C08|record|") + opn + "|none|fault-free-readback-" + verdict_name(ic.v), ic.what); return; }
	}
	size_t count_kind[disk::OP_NKINDS] = {0};
	uint64_t written = 0;
	bool rewrote = false;
	uint64_t high = 0;
	for (auto &op : L) {
		count_kind[op.kind]++;
		if (op.kind == disk::OP_WRITE) { written += op.done; if (op.off < high) rewrote = true; if (op.off + op.done > high) high = op.off + op.done; }
	}
	ctx.count("c08:tables");
	ctx.count("c08:record_ops", (int64_t)L.size());
	if (ctx.stats) ctx.stats->max("c08_ops_per_write", (int64_t)L.size());
	{
		std::vector<Hdu> hd; std::string e2;
		scan_hdus(final_img, hd, e2);
		if (!hd.empty() && hd[0].data_off > 2880) ctx.count("probe:header_block_inserted");
		if (rewrote) ctx.count("probe:file_region_rewritten");
		if (written > final_img.size() + 2880) ctx.count("probe:data_unit_shifted_on_disk");
	}

	// ---- crash images
	auto crash_one = [&](size_t k, uint64_t b, bool mem) -> bool {   // true = violation
		if (k > L.size()) k = L.size();
		if (k < L.size() && L[k].kind == disk::OP_WRITE && L[k].done) b = b % L[k].done; else b = 0;
		disk::Image ci = disk::crash_image(L, out, k, b, old);
		// the old file, byte for byte: nothing of this write has reached it yet (it is not a partial file of this write)
		if (old.exists && ci.exists && ci.bytes == old.bytes) {
			ctx.log.ev("crash k=%zu b=%llu -> pre-existing file untouched", k, (unsigned long long)b);
			ctx.count("probe:crash_image_old_file_untouched"); ctx.count("c08:crash_images");
			env.state(std::string("crash:") + (k < L.size() ? disk::kind_name(L[k].kind) : "end"), b ? "torn-write" : "op-boundary", "old-untouched");
			return false;
		}
		ctx.crumb("read_fits%s|crash|k=%zu b=%llu", mem ? "_mem" : "", k, (unsigned long long)b);
		ImageCheck ic = check_image(env, ci, table, mem);
		env.nontrivial = true;
		const char *where = b ? "torn-write" : "op-boundary";
		ctx.log.ev("crash k=%zu b=%llu size=%zu reader=%s -> %s %s", k, (unsigned long long)b, ci.bytes.size(), mem ? "mem" : "disk", verdict_name(ic.v), clip(ic.what, 80).c_str());
		ctx.count(std::string("probe:crash_image_") + verdict_name(ic.v));
		ctx.count("c08:crash_images");
		env.state(std::string("crash:") + (k < L.size() ? disk::kind_name(L[k].kind) : "end"), where, verdict_name(ic.v));
		if (ic.v == V_DIFFERENT) {
			Json ex = Json::object();
			ex["op"] = Json("crash"); ex["k"] = Json((long long)k); ex["b"] = Json((long long)b); ex["reader"] = Json(mem ? "mem" : "disk");
			ctx.aux["explicit"] = ex;
			ctx.violate(std::string("C08|crash|") + opn + "|" + where + "|loads-different",
			            "crash image after " + std::to_string(k) + " ops + " + std::to_string(b) + " bytes (" + std::to_string(ci.bytes.size()) + " bytes on disk) is accepted by the reader and differs in " + ic.what);
			return true;
		}
		return false;
	};

	// ---- single faults
	auto fault_one = [&](const Json &faults) -> bool {   // true = violation
		std::vector<disk::Fault> fl;
		bool applicable = true;
		for (auto &fj : faults.a) {
			disk::Fault f = fault_from(fj);
			if (f.on == "quota") { uint64_t sz = final_img.size() ? final_img.size() : 1; f.arg = (int64_t)((uint64_t)f.arg % sz); }
			else {
				disk::OpKind k;
				if (!disk::kind_from_name(f.on, k) || count_kind[k] == 0) { applicable = false; break; }
				f.at = (int64_t)((uint64_t)f.at % count_kind[k]);
			}
			fl.push_back(f);
		}
		std::string fk = on_class(faults);
		if (!applicable || fl.empty()) { ctx.log.ev("fault %s inapplicable (no such operation in the recording)", fk.c_str()); ctx.count("c08:fault_inapplicable"); return false; }
		reset_target();
		disk::set_config(cfg);
		disk::clear_oplog();
		disk::clear_fired();
		env.fired_seen.clear();
		disk::arm(fl);
		ctx.crumb("%s|%s:%s|at=%lld", opn, fl[0].on.c_str(), fl[0].err.c_str(), (long long)fl[0].at);
		WriteResult r = w.write(out);
		disk::disarm();
		disk::set_config(disk::Config());
		std::vector<disk::Op> fl_log = disk::oplog();
		bool any_fired = !disk::fired().empty();
		env.drain("faulty", false);
		ctx.count("c08:faulty_writes");
		if (!any_fired) { ctx.count("c08:fault_not_fired"); }
		// did the error arrive only with the final flush? (failed write directly followed by close)
		for (size_t i = 0; i + 1 < fl_log.size(); i++)
			if (fl_log[i].kind == disk::OP_WRITE && !fl_log[i].fault.empty() && fl_log[i].err && fl_log[i + 1].kind == disk::OP_CLOSE) { ctx.count("probe:deferred_error_at_close"); break; }
		disk::Image left;
		left.exists = disk::get(out, left.bytes);
		std::string desc = fl[0].on + ":" + fl[0].err + (fl[0].persistent ? ":persistent" : ":once") + "@" + std::to_string(fl[0].at);
		if (r.ok) {
			std::string symptom;
			if (!left.exists) symptom = "no file";
			else if (left.bytes != final_img) {
				ImageCheck ic = check_image(env, left, table, false);
				if (ic.v != V_EQUAL) symptom = std::string("file of ") + std::to_string(left.bytes.size()) + " bytes instead of " + std::to_string(final_img.size()) + ", reads back " + verdict_name(ic.v) + " " + clip(ic.what, 60);
				else ctx.count("probe:success_with_different_bytes_but_equal_table");
			}
			ctx.log.ev("fault %s fired=%d -> writer reported success, file %s", desc.c_str(), (int)any_fired, symptom.empty() ? "complete" : symptom.c_str());
			env.state(opn, fk + ":" + fl[0].err, symptom.empty() ? "ok-complete" : "ok-incomplete");
			if (!symptom.empty()) {
				Json ex = Json::object(); ex["op"] = Json("fault"); ex["faults"] = faults;
				ctx.aux["explicit"] = ex;
				// what was injected and what the file looks like are part of the signature: a finding about one combination
				// (e.g. a transient EINTR that leaves a full-length file with a hole) must not cover the others
				std::string shape = !left.exists ? "no-file" : left.bytes.size() < final_img.size() ? "short-file" : left.bytes.size() == final_img.size() ? "full-length" : "long-file";
				ctx.violate(std::string("C08|success-implies-complete|") + opn + "|" + fk + "|reported-success-file-incomplete|" + fl[0].err + "|" + shape, "injected " + desc + ": " + symptom);
				return true;
			}
			ctx.count("probe:fault_tolerated_file_complete");
			return false;
		}
		ctx.count("probe:writer_reported_failure");
		if (old.exists && left.exists && left.bytes == old.bytes) {
			ctx.log.ev("fault %s fired=%d -> writer failed (%s), pre-existing file untouched", desc.c_str(), (int)any_fired, clip(r.what, 60).c_str());
			ctx.count("probe:leftover_old_file_untouched");
			env.state(opn, fk + ":" + fl[0].err, "failed-old-untouched");
			return false;
		}
		ImageCheck ic = check_image(env, left, table, (fl[0].at & 1) != 0);
		ctx.log.ev("fault %s fired=%d -> writer failed (%s), leftover %s %s", desc.c_str(), (int)any_fired, clip(r.what, 60).c_str(), left.exists ? verdict_name(ic.v) : "absent", clip(ic.what, 60).c_str());
		ctx.count(std::string("probe:leftover_") + (left.exists ? verdict_name(ic.v) : "absent"));
		env.state(opn, fk + ":" + fl[0].err, std::string("failed-leftover-") + (left.exists ? verdict_name(ic.v) : "absent"));
		if (ic.v == V_DIFFERENT) {
			Json ex = Json::object(); ex["op"] = Json("fault"); ex["faults"] = faults;
			ctx.aux["explicit"] = ex;
			ctx.violate(std::string("C08|leftover|") + opn + "|" + fk + "|loads-different", "injected " + desc + ": writer failed, the file left behind loads and differs in " + ic.what);
			return true;
		}
		return false;
	};

	for (auto &op : plan["ops"].a) {
		std::string kind = op.gets("op");
		if (kind == "crash") {
			if (crash_one((size_t)((uint64_t)op.geti("k") % (L.size() + 1)), (uint64_t)op.geti("b"), op.gets("reader") == "mem")) return;
		} else if (kind == "crash_enum") {
			// every op prefix; inside each write: 1, len/2, len-1, every 2880 boundary +-1, random cuts
			struct Cut { size_t k; uint64_t b; };
			std::vector<Cut> cuts;
			Rng cr((uint64_t)op.geti("cut_seed"), "cuts");
			bool std_cuts = op.gets("cuts", "std") == "std";
			int nrand = (int)op.geti("random_cuts", 0);
			for (size_t k = 0; k <= L.size(); k++) {
				cuts.push_back({k, 0});
				if (k < L.size() && L[k].kind == disk::OP_WRITE && L[k].done > 1) {
					uint64_t len = L[k].done;
					if (std_cuts) {
						cuts.push_back({k, 1}); cuts.push_back({k, len / 2}); cuts.push_back({k, len - 1});
						uint64_t first = (2880 - L[k].off % 2880) % 2880;
						int nb = 0;
						for (uint64_t p = first ? first : 2880; p < len && nb < 6; p += 2880, nb++) {
							if (p > 1) cuts.push_back({k, p - 1});
							cuts.push_back({k, p});
							if (p + 1 < len) cuts.push_back({k, p + 1});
						}
					}
					for (int i = 0; i < nrand; i++) cuts.push_back({k, 1 + cr.below(len - 1)});
				}
			}
			size_t maxi = (size_t)op.geti("max_images", 200);
			// deterministic thinning: always keep the op boundaries first, then a seeded sample of the cuts
			if (cuts.size() > maxi) {
				std::vector<Cut> keep, rest;
				for (auto &c : cuts) (c.b == 0 ? keep : rest).push_back(c);
				if (keep.size() > maxi) {
					std::vector<Cut> thin;
					for (size_t i = 0; i < maxi; i++) thin.push_back(keep[i * keep.size() / maxi]);
					keep.swap(thin);
					ctx.count("c08:crash_enum_thinned_boundaries");
				} else {
					for (size_t i = rest.size(); i > 1; i--) std::swap(rest[i - 1], rest[cr.below(i)]);
					size_t room = maxi - keep.size();
					rest.resize(std::min(room, rest.size()));
					keep.insert(keep.end(), rest.begin(), rest.end());
					std::stable_sort(keep.begin(), keep.end(), [](const Cut &a, const Cut &b) { return a.k < b.k || (a.k == b.k && a.b < b.b); });
				}
				cuts.swap(keep);
			} else ctx.count("c08:crash_enum_complete");
			std::string rd = op.gets("reader", "both");
			size_t i = 0;
			for (auto &c : cuts) {
				bool mem = rd == "mem" || (rd == "both" && (i++ % 3 == 2));
				if (crash_one(c.k, c.b, mem)) return;
			}
		} else if (kind == "fault") {
			if (fault_one(op["faults"])) return;
		} else if (kind == "fault_enum") {
			std::vector<Json> all;
			for (int pers = 0; pers < 2; pers++) {
				for (size_t i = 0; i < count_kind[disk::OP_WRITE]; i++) for (auto e : WRITE_ERRS) all.push_back(fault_json("write", (int64_t)i, e, pers, 1000 + (int64_t)i * 7919));
				for (size_t i = 0; i < count_kind[disk::OP_CLOSE]; i++) for (auto e : {"EIO", "ENOSPC"}) all.push_back(fault_json("close", (int64_t)i, e, pers, 0));
				for (size_t i = 0; i < count_kind[disk::OP_SEEK]; i++) all.push_back(fault_json("seek", (int64_t)i, "EIO", pers, 0));
				for (size_t i = 0; i < count_kind[disk::OP_OPEN]; i++) for (auto e : {"ENOENT", "EACCES", "EMFILE"}) all.push_back(fault_json("open", (int64_t)i, e, pers, 0));
				for (size_t i = 0; i < count_kind[disk::OP_REMOVE]; i++) all.push_back(fault_json("remove", (int64_t)i, "EACCES", pers, 0));
				for (size_t i = 0; i < count_kind[disk::OP_RENAME]; i++) for (auto e : {"ENOSPC", "EACCES"}) all.push_back(fault_json("rename", (int64_t)i, e, pers, 0));
				for (size_t i = 0; i < count_kind[disk::OP_READ]; i++) for (auto e : {"EIO", "eof", "short"}) all.push_back(fault_json("read", (int64_t)i, e, pers, 77));
				for (size_t i = 0; i < count_kind[disk::OP_TRUNCATE]; i++) for (auto e : {"EIO", "ENOSPC"}) all.push_back(fault_json("truncate", (int64_t)i, e, pers, 0));
			}
			for (uint64_t q = 0; q < 8; q++) all.push_back(fault_json("quota", 0, q & 1 ? "EFBIG" : "ENOSPC", true, (int64_t)(final_img.size() * q / 8 + q * 13)));
			Rng orr((uint64_t)op.geti("order_seed"), "order");
			for (size_t i = all.size(); i > 1; i--) std::swap(all[i - 1], all[orr.below(i)]);
			size_t maxn = (size_t)op.geti("max", 200);
			if (all.size() <= maxn) ctx.count("c08:fault_enum_complete"); else all.resize(maxn);
			for (auto &f : all) { Json fl = Json::array(); fl.push(f); if (fault_one(fl)) return; }
		} else if (kind == "mem_fault") {
			// growth failure of the memory file behind write_fits_mem (wrapped realloc)
			const char *mop = w.c_api ? "writesplinefitstable_mem" : "write_fits_mem";
			auto write_mem = [&](Bytes &outb, std::string &what) -> bool {
				if (w.c_api) {
					struct splinetable_buffer ob{nullptr, 0};
					int rc = writesplinefitstable_mem(&ob, &w.handle);
					if (rc) { what = "status " + std::to_string(rc); return false; }
					outb.assign((uint8_t *)ob.data, (uint8_t *)ob.data + ob.size);
					free(ob.data);
					return true;
				}
				try { auto pr = ref.get().write_fits_mem(); outb.assign((uint8_t *)pr.first, (uint8_t *)pr.first + pr.second); free(pr.first); return true; }
				catch (std::exception &e) { what = e.what(); return false; }
			};
			Bytes good, got;
			std::string what;
			disk::arm_realloc(-1, false);   // counts, never fires
			ctx.crumb("%s|none|count reallocs", mop);
			bool ok0 = write_mem(good, what);
			uint64_t n = disk::realloc_calls();
			disk::disarm_realloc();
			if (!ok0) { ctx.violate(std::string("C08|record|") + mop + "|none|fault-free-write-failed", what); return; }
			if (!n) { ctx.log.ev("mem_fault inapplicable: no realloc during %s", mop); continue; }
			int64_t at = (int64_t)((uint64_t)op.geti("at") % n);
			bool pers = op.getb("persistent");
			ctx.crumb("%s|realloc|at=%lld", mop, (long long)at);
			// cfitsio is known to go on with inconsistent HDU state after a failed growth of
			// its memory file (the next fits_write_pix then reads a garbage NAXIS): the
			// faulty write is first tried in a forked child
			{
				std::string how = dies_in_child([&]() { Bytes b2; std::string w2; disk::arm_realloc(at, pers); write_mem(b2, w2); });
				if (!how.empty()) {
					ctx.count("fault:realloc:ENOMEM");
					env.nontrivial = true;
					ctx.log.ev("mem_fault realloc@%lld/%llu%s -> writer dies in the forked probe: %s", (long long)at, (unsigned long long)n, pers ? " persistent" : "", how.c_str());
					env.state(mop, "realloc:ENOMEM", "dies");
					ctx.aux["explicit"] = op;
					ctx.violate(std::string("C08|memfile|") + mop + "|realloc|writer-dies", "realloc #" + std::to_string(at) + " of the memory file failed; " + mop + " dies in a forked probe (" + how + ")");
					return;
				}
			}
			disk::arm_realloc(at, pers);
			bool ok1 = write_mem(got, what);
			uint64_t fired = disk::realloc_fired();
			disk::disarm_realloc();
			if (fired) { ctx.count("fault:realloc:ENOMEM", (int64_t)fired); env.nontrivial = true; }
			ctx.log.ev("mem_fault realloc@%lld/%llu%s fired=%llu -> %s %s", (long long)at, (unsigned long long)n, pers ? " persistent" : "", (unsigned long long)fired, ok1 ? "success" : "failure", clip(what, 80).c_str());
			env.state(mop, "realloc:ENOMEM", ok1 ? "ok" : "failed");
			if (ok1 && got != good) {
				disk::Image mi; mi.exists = true; mi.bytes = got;
				ImageCheck ic = check_image(env, mi, table, false);
				if (ic.v != V_EQUAL) {
					ctx.aux["explicit"] = op;
					ctx.violate(std::string("C08|memfile|") + mop + "|realloc|reported-success-buffer-incomplete",
					            "realloc #" + std::to_string(at) + " failed, " + mop + " reported success with a buffer of " + std::to_string(got.size()) + " bytes instead of " + std::to_string(good.size()) + " that reads back " + verdict_name(ic.v));
					return;
				}
			}
			if (!ok1) ctx.count("probe:mem_writer_reported_failure");
		} else ctx.log.ev("unknown op %s ignored", kind.c_str());
	}
}

} // namespace

namespace {

// ================================================================= C07
Json IoHarness::gen_c07(uint64_t runseed, const std::string &tier) {
	Rng gen(runseed, "gen"), fr(runseed, "fault"), knob(runseed, "knob");
	bool thorough = tier == "thorough";
	Json plan = Json::object();
	plan["prop"] = Json("C07");
	TableSpec spec;
	Bytes base;
	bool use_shipped = gen.chance(0.12);
	if (use_shipped) {
		// the small shipped files (1-d .. 3-d); the big ones only in the thorough tier
		size_t pick = gen.below(thorough ? N_SHIPPED : 6);
		plan["shipped"] = Json(SHIPPED[pick]);
		std::string err;
		if (!plan_table(plan, spec, base, err)) { plan.erase("shipped"); use_shipped = false; }
	}
	if (!use_shipped) {
		GenLimits lim;
		lim.max_dims = gen.chance(0.85) ? 4 : 7;
		lim.max_coeffs = gen.chance(0.9) ? 600 : (thorough ? 40000 : 6000);
		lim.max_aux = 12;
		lim.quote_permille = 0;
		TableDesc d = gen_table(gen, lim);
		plan["table"] = d.to_json();
		spec = realize(d);
		base = encode_fits(spec);
	}
	plan["base"] = Json(gen.chance(0.3) ? "library" : "codec");
	plan["config"] = gen_config(knob, true);
	Json ops = Json::array();
	int nops = gen.chance(0.04) ? 0 : 1 + (int)std::min(gen.below(4), gen.below(4));
	for (int i = 0; i < nops; i++) ops.push(gen_corruption(fr, base, spec));
	plan["ops"] = ops;
	static const char *readers[] = {"read_fits", "read_fits", "read_fits", "read_fits", "read_fits_mem", "read_fits_mem", "ctor", "c_read", "c_read_mem", "read_fits"};
	std::string reader = readers[gen.below(10)];
	plan["reader"] = Json(reader);
	Json rf = Json::array();
	if ((reader == "read_fits" || reader == "ctor" || reader == "c_read") && fr.chance(0.25)) {
		static const char *e[] = {"EIO", "eof", "short", "EIO"};
		rf.push(fault_json("read", (int64_t)fr.below(1000), e[fr.below(4)], fr.chance(0.3), (int64_t)fr.below(1 << 16)));
		if (fr.chance(0.15)) rf.push(fault_json("seek", (int64_t)fr.below(1000), "EIO", false, 0));
	}
	plan["read_faults"] = rf;
	{
		// own stream: plans generated before this fault kind existed keep their other fields
		Rng af(runseed, "allocfault");
		if ((reader == "read_fits" || reader == "read_fits_mem" || reader == "ctor") && af.chance(0.3)) {
			Json a = Json::object();
			a["at"] = Json((long long)af.below(1 << 20));
			plan["alloc_fault"] = a;
		}
	}
	{ Rng oc(runseed, "c_handle_occupied"); if (reader == "c_read" && oc.chance(0.4)) plan["c_handle_occupied"] = Json(true); }
	{
		// the two command-line tools on the same image (own stream)
		Rng tr(runseed, "tools");
		if (tr.chance(0.2)) {
			Json t = Json::object();
			static const char *args[] = {"inside", "inside", "inside", "too_many", "too_few", "unparsable", "outside"};
			t["eval_args"] = Json(args[tr.below(7)]);
			t["seed"] = Json((long long)(tr.next() >> 20));
			plan["tools"] = t;
		}
	}
	Json bat = Json::object();
	bat["seed"] = Json((long long)(gen.next() >> 20));
	bat["points"] = Json(thorough ? 40 : 24);
	bat["nan"] = Json(gen.chance(0.08));
	plan["battery"] = bat;
	return plan;
}

// One read experiment on `img` with the reader named in the plan. Returns false
// when the run must end (violation reported, or nothing further can be done).
struct C07Case {
	IoHarness &H;
	Env &env;
	const Json &plan;
	const Bytes &valid;            // undamaged image
	const TableSpec &valid_table;  // what `valid` loads as
	std::string fk;                // fault-kind slot of signatures: corrupt | valid | read:<err> ...
	std::string cclass;            // class of the last applied corruption (statistics)
};

std::string shape_rule(const Snapshot &s) {
	std::string why;
	if (!well_formed(s.t, why)) return why;
	if (!strides_diff(s).empty()) return "sizes";
	return "";
}

// ledger verdict after an object was destroyed: everything it owned is back, every block under the size it was
// obtained with ("safely destructible" includes an allocator that uses the size it is told). Earlier rounds left a
// wrong size to C20's ledger clause; since the repairs of the reader the unchanged tree never names one here.
std::string ledger_after_destroy(Env &env, int owner, size_t viol_before) {
	const auto &v = env.L.violations();
	std::string bad;
	for (size_t i = viol_before; i < v.size(); i++) {
		if (v[i].kind == "size-mismatch") env.ctx.count("probe:dealloc_size_mismatch");
		if (bad.empty()) bad = v[i].kind;
	}
	if (!bad.empty()) return "unclean-destruction:" + bad;
	if (env.L.live_blocks_of(owner)) return "blocks-live-after-destruction";
	return "";
}

bool c07_cxx(C07Case &c, const Bytes &img, const std::string &reader, const std::vector<disk::Fault> &faults, uint64_t *nreads, uint64_t *nseeks,
             uint64_t alloc_fail_at = 0, uint64_t *nallocs = nullptr) {
	Env &env = c.env;
	RunCtx &ctx = env.ctx;
	TabBox box(env.L);
	size_t viol0 = env.L.violations().size();
	ReadOutcome ro;
	disk::put("/sim/in.fits", img);
	disk::set_config(config_from(c.plan["config"]));
	disk::clear_oplog();
	if (!faults.empty()) { disk::clear_fired(); env.fired_seen.clear(); disk::arm(faults); }
	ctx.crumb("%s|%s|read", reader.c_str(), c.fk.c_str());
	bool constructed = true;
	// allocation fault: the k-th request the table's allocator sees during this read is refused
	env.L.arm();
	env.L.fail_at(alloc_fail_at);
	uint64_t injected0 = env.L.counters().injected_failures;
	if (reader == "ctor") {
		try { box.make_from("/sim/in.fits"); ro.ok = true; }
		catch (std::exception &e) { ro.what = e.what(); constructed = false; }
		catch (...) { ro.what = "non-std exception"; constructed = false; }
	} else if (reader == "read_fits_mem") ro = cxx_read_mem(box.make(), img);
	else ro = cxx_read_disk(box.make(), "/sim/in.fits");
	env.L.fail_at(0);
	if (nallocs) *nallocs = env.L.allocs_since_arm();
	if (env.L.counters().injected_failures != injected0) ctx.count("fault:alloc_fail_in_read");
	if (nreads) *nreads = disk::op_count(disk::OP_READ);
	if (nseeks) *nseeks = disk::op_count(disk::OP_SEEK);
	disk::disarm();
	disk::set_config(disk::Config());
	env.drain("read", false);
	std::string sigbase = "C07|";
	if (!ro.ok) {
		ctx.log.ev("%s failed: %s", reader.c_str(), clip(ro.what).c_str());
		ctx.count("c07:rejected");
		if (!constructed) {
			// the constructor threw: no object exists. What it had allocated is lost
			// (observation for C20; C07 speaks about the target object only).
			size_t lost = env.L.live_blocks_of(box.owner);
			if (lost) { ctx.count("probe:ctor_throw_leaked_blocks", (int64_t)lost); ctx.log.ev("ctor threw with %zu blocks allocated and lost", lost); env.L.abandon(box.owner); }
			env.state(reader, c.fk, "rejected");
			return true;
		}
		Tab &t = box.get();
		if (t.get_ndim() != 0) {
			size_t blocks = env.L.live_blocks_of(box.owner);
			ctx.log.ev("object reports ndim=%u after the failed read, %zu blocks owned", t.get_ndim(), blocks);
			env.state(reader, c.fk, "nonempty-after-failure");
			box.abandon();   // destroying it would walk uninitialised pointers
			ctx.violate(sigbase + "A|" + reader + "|" + c.fk + "|nonempty-after-failure",
			            reader + " threw (" + clip(ro.what, 100) + ") and left the object with ndim=" + std::to_string(t.get_ndim()) + ", " + std::to_string(blocks) + " blocks owned");
			return false;
		}
		if (size_t blocks = env.L.live_blocks_of(box.owner)) {
			box.abandon();
			ctx.violate(sigbase + "A|" + reader + "|" + c.fk + "|empty-but-owns-blocks", std::to_string(blocks) + " blocks still owned by an object that reports ndim=0");
			return false;
		}
		// reusable: a valid image now loads into the same object
		disk::put("/sim/valid.fits", c.valid);
		ctx.crumb("%s|%s|reuse", reader.c_str(), c.fk.c_str());
		ReadOutcome r2 = reader == "read_fits_mem" ? cxx_read_mem(t, c.valid) : cxx_read_disk(t, "/sim/valid.fits");
		env.drain("reuse", true);
		if (!r2.ok) {
			if (t.get_ndim()) box.abandon();
			ctx.violate(sigbase + "A|" + reader + "|" + c.fk + "|not-reusable", "second read of a valid image into the object failed: " + clip(r2.what, 100));
			return false;
		}
		Snapshot s2 = snapshot(t);
		std::string d = full_diff(c.valid_table, s2.t, true);
		if (!d.empty()) { ctx.violate(sigbase + "A|" + reader + "|" + c.fk + "|reuse-differs:" + d, "object reused after a failed read differs from the valid image in " + d); return false; }
		ctx.crumb("%s|%s|destroy-after-reuse", reader.c_str(), c.fk.c_str());
		box.destroy();
		std::string lv = ledger_after_destroy(env, box.owner, viol0);
		if (!lv.empty()) { ctx.violate(sigbase + "A|" + reader + "|" + c.fk + "|" + lv, "after failed read, reuse and destruction"); return false; }
		env.state(reader, c.fk, "rejected-clean");
		ctx.count("probe:failed_read_left_object_clean");
		return true;
	}
	// ---- the read succeeded: oracle B
	Tab &t = box.get();
	Snapshot s = snapshot(t);
	std::string rule = shape_rule(s);
	ctx.log.ev("%s ok: ndim=%u digest=%016llx %s", reader.c_str(), s.t.ndim, (unsigned long long)s.t.digest(), rule.empty() ? "well-formed" : rule.c_str());
	if (!rule.empty()) {
		env.state(reader, c.fk, "accepted-illformed:" + rule);
		std::string detail = "reader returned a table with";
		for (uint32_t i = 0; i < s.t.ndim && i < 6; i++)
			detail += " [dim " + std::to_string(i) + ": naxes=" + std::to_string(s.t.naxes[i]) + " nknots=" + std::to_string(s.t.knots[i].size()) + " order=" + std::to_string(s.t.order[i]) + "]";
		ctx.violate(sigbase + "B|" + reader + "|" + c.fk + "|illformed:" + rule, detail);
		// the object itself is consistent enough to be destroyed (all arrays allocated)
		box.destroy();
		return false;
	}
	ctx.count("c07:accepted_wellformed");
	env.state(reader, c.fk, "accepted-wellformed");
	if (getenv("PSV_DEBUG")) { TableSpec tmp = s.t; tmp.coeff.clear(); fprintf(stderr, "PSV_DEBUG table (coefficients omitted): %s\n", tmp.to_json().dump().c_str()); }
	const Json &bat = c.plan["battery"];
	uint64_t bseed = (uint64_t)bat.geti("seed");
	int pts = (int)bat.geti("points", 24);
	CxxAdapter a{t};
	if (!battery_eval(env, a, s.t, bseed, pts, "cxx", true, bat.getb("nan"), "searchcenters")) { box.destroy(); return false; }
	battery_evaluator(env, t, s.t, bseed, pts / 2);
	// comparison with itself and with the undamaged table
	{
		ctx.crumb("battery|cxx|operator==");
		TabBox other(env.L);
		ReadOutcome r2 = cxx_read_mem(other.make(), c.valid);
		if (r2.ok) {
			bool e1 = t == t, e2 = t == other.get(), e3 = other.get() == t, e4 = t != other.get();
			ctx.log.ev("compare self=%d undamaged=%d/%d ne=%d", (int)e1, (int)e2, (int)e3, (int)e4);
			if (e2 != e3) ctx.count("probe:operator_eq_asymmetric");
		} else if (other.get().get_ndim()) other.abandon();
	}
	// re-serialisation (may fail; must be safe). Equality of the re-read table is C06's clause, counted only.
	{
		ctx.crumb("battery|cxx|write_fits");
		bool wrote = false;
		try { t.write_fits("/sim/re.fits"); wrote = true; } catch (std::exception &e) { ctx.log.ev("rewrite threw: %s", clip(e.what(), 80).c_str()); ctx.count("probe:battery_rewrite_threw"); }
		env.drain("rewrite", true);
		if (wrote) {
			disk::Image ri; ri.exists = disk::get("/sim/re.fits", ri.bytes);
			ImageCheck ic = check_image(env, ri, s.t, false);
			ctx.log.ev("rewrite reread %s", verdict_name(ic.v));
			if (ic.v != V_EQUAL) ctx.count("probe:battery_reread_not_equal");
		}
		ctx.crumb("battery|cxx|write_fits_mem");
		try {
			auto pr = t.write_fits_mem();
			Bytes mb((uint8_t *)pr.first, (uint8_t *)pr.first + pr.second);
			free(pr.first);
			disk::Image ri; ri.exists = true; ri.bytes = mb;
			ImageCheck ic = check_image(env, ri, s.t, true);
			ctx.log.ev("rewrite_mem %zu bytes reread %s", mb.size(), verdict_name(ic.v));
			if (ic.v != V_EQUAL) ctx.count("probe:battery_reread_not_equal");
		} catch (std::exception &e) { ctx.log.ev("rewrite_mem threw: %s", clip(e.what(), 80).c_str()); ctx.count("probe:battery_rewrite_threw"); }
	}
	ctx.crumb("%s|%s|destroy", reader.c_str(), c.fk.c_str());
	box.destroy();
	std::string lv = ledger_after_destroy(env, box.owner, viol0);
	if (!lv.empty()) { ctx.violate(sigbase + "B|" + reader + "|" + c.fk + "|" + lv, "destruction of a successfully read table"); return false; }
	return true;
}

bool c07_c(C07Case &c, const Bytes &img, const std::string &reader, const std::vector<disk::Fault> &faults, uint64_t *nreads, uint64_t *nseeks) {
	Env &env = c.env;
	RunCtx &ctx = env.ctx;
	struct splinetable h{nullptr};
	int rc;
	disk::put("/sim/in.fits", img);
	disk::set_config(config_from(c.plan["config"]));
	disk::clear_oplog();
	if (!faults.empty()) { disk::clear_fired(); env.fired_seen.clear(); disk::arm(faults); }
	// The file reader of the C interface replaces whatever the handle holds (it frees, then constructs): in some runs the
	// handle already holds the undamaged table, so that "a failed read leaves the handle empty" is also shown for a handle
	// that was occupied. (The memory reader refuses an occupied handle, as the C++ operation does: not done there.)
	if (reader == "c_read" && c.plan.getb("c_handle_occupied")) {
		disk::put("/sim/valid.fits", c.valid);
		int rc0 = readsplinefitstable("/sim/valid.fits", &h);
		env.drain("setup", true);
		disk::clear_oplog();
		if (rc0 == 0) ctx.count("probe:c_read_into_occupied_handle");
	}
	ctx.crumb("%s|%s|read", reader.c_str(), c.fk.c_str());
	Bytes copy = img;
	if (reader == "c_read_mem") {
		unsigned char dummy = 0;
		struct splinetable_buffer b;
		b.data = copy.empty() ? (void *)&dummy : (void *)copy.data();
		b.size = copy.size();
		rc = readsplinefitstable_mem(&b, &h);
	} else rc = readsplinefitstable("/sim/in.fits", &h);
	if (nreads) *nreads = disk::op_count(disk::OP_READ);
	if (nseeks) *nseeks = disk::op_count(disk::OP_SEEK);
	disk::disarm();
	disk::set_config(disk::Config());
	env.drain("read", false);
	std::string opn = reader == "c_read_mem" ? "readsplinefitstable_mem" : "readsplinefitstable";
	if (rc != 0) {
		ctx.log.ev("%s returned %d", opn.c_str(), rc);
		ctx.count("c07:rejected");
		if (h.data && splinetable_ndim(&h) != 0) {
			uint32_t nd = splinetable_ndim(&h);
			env.state(opn, c.fk, "nonempty-after-failure");
			// splinetable_free would destroy a half-built object: the handle is leaked on purpose
			ctx.violate("C07|A|" + opn + "|" + c.fk + "|nonempty-after-failure", opn + " returned " + std::to_string(rc) + " and left the handle holding a table with ndim=" + std::to_string(nd));
			return false;
		}
		// reusable
		ctx.crumb("%s|%s|reuse", opn.c_str(), c.fk.c_str());
		int rc2;
		Bytes vcopy = c.valid;
		if (reader == "c_read_mem") { struct splinetable_buffer b; b.data = vcopy.data(); b.size = vcopy.size(); rc2 = readsplinefitstable_mem(&b, &h); }
		else { disk::put("/sim/valid.fits", c.valid); rc2 = readsplinefitstable("/sim/valid.fits", &h); }
		env.drain("reuse", true);
		if (rc2 != 0) {
			bool bad = h.data && splinetable_ndim(&h) != 0;
			if (!bad) splinetable_free(&h);
			ctx.violate("C07|A|" + opn + "|" + c.fk + "|not-reusable", "second read of a valid image into the handle returned " + std::to_string(rc2));
			return false;
		}
		Snapshot s2 = snapshot_c(&h);
		std::string d = full_diff(c.valid_table, s2.t, false);
		if (!d.empty()) { ctx.violate("C07|A|" + opn + "|" + c.fk + "|reuse-differs:" + d, "handle reused after a failed read differs from the valid image in " + d); return false; }
		ctx.crumb("%s|%s|free-after-reuse", opn.c_str(), c.fk.c_str());
		splinetable_free(&h);
		env.state(opn, c.fk, "rejected-clean");
		ctx.count("probe:failed_read_left_object_clean");
		return true;
	}
	Snapshot s = snapshot_c(&h);
	std::string rule = shape_rule(s);
	ctx.log.ev("%s ok: ndim=%u digest=%016llx %s", opn.c_str(), s.t.ndim, (unsigned long long)s.t.digest(), rule.empty() ? "well-formed" : rule.c_str());
	if (!rule.empty()) {
		env.state(opn, c.fk, "accepted-illformed:" + rule);
		ctx.violate("C07|B|" + opn + "|" + c.fk + "|illformed:" + rule, "reader returned an ill-formed table");
		ctx.crumb("%s|%s|free-illformed", opn.c_str(), c.fk.c_str());
		splinetable_free(&h);
		return false;
	}
	ctx.count("c07:accepted_wellformed");
	env.state(opn, c.fk, "accepted-wellformed");
	const Json &bat = c.plan["battery"];
	CAdapter a{&h};
	if (s.t.ndim <= 60 && !battery_eval(env, a, s.t, (uint64_t)bat.geti("seed"), (int)bat.geti("points", 24), "c", false, bat.getb("nan"), "tablesearchcenters")) { splinetable_free(&h); return false; }
	ctx.crumb("battery|c|writesplinefitstable");
	int wrc = writesplinefitstable("/sim/re.fits", &h);
	env.drain("rewrite", true);
	if (wrc == 0) {
		disk::Image ri; ri.exists = disk::get("/sim/re.fits", ri.bytes);
		ImageCheck ic = check_image(env, ri, s.t, false);
		if (ic.v != V_EQUAL) ctx.count("probe:battery_reread_not_equal");
	} else ctx.count("probe:battery_rewrite_threw");
	ctx.crumb("battery|c|writesplinefitstable_mem");
	struct splinetable_buffer ob{nullptr, 0};
	if (writesplinefitstable_mem(&ob, &h) == 0) {
		disk::Image ri; ri.exists = true; ri.bytes.assign((uint8_t *)ob.data, (uint8_t *)ob.data + ob.size);
		free(ob.data);
		ImageCheck ic = check_image(env, ri, s.t, true);
		if (ic.v != V_EQUAL) ctx.count("probe:battery_reread_not_equal");
	} else ctx.count("probe:battery_rewrite_threw");
	ctx.crumb("%s|%s|free", opn.c_str(), c.fk.c_str());
	splinetable_free(&h);
	return true;
}

// ---- the command-line tools (photospline-inspect, photospline-eval) on the image ----
// Their main() functions are linked in under other names (Makefile) and run in a forked child on the
// simulated disk. Reference: the library's own verdict on the same image decides what the exit status
// must be (a rejected file: not 0; an accepted table: 0 for inspect, and for eval 0 exactly when the
// right number of parsable coordinates inside the knot range is given, printing what the library
// evaluates to). A tool that dies of a memory error or hangs is a violation whatever the image.
struct ToolOutcome { int exit_code = -1, sig = 0; std::string out; };
ToolOutcome run_tool(int (*toolmain)(int, char **), const std::vector<std::string> &args) {
	ToolOutcome r;
	fflush(stdout); fflush(stderr);
	int pfd[2];
	if (pipe(pfd) != 0) return r;
	pid_t pid = fork();
	if (pid < 0) { close(pfd[0]); close(pfd[1]); return r; }
	if (pid == 0) {
		close(pfd[0]);
		int nul = open("/dev/null", O_WRONLY);
		if (nul >= 0 && !getenv("PSV_KEEP_STDERR")) dup2(nul, 2);
		dup2(pfd[1], 1);
		alarm(20);
		std::set_terminate([]() { _exit(70); });   // an exception nobody catches: the tool's way of failing
		std::vector<char *> av;
		std::vector<std::string> copy = args;
		for (auto &a : copy) av.push_back(&a[0]);
		av.push_back(nullptr);
		int rc = toolmain((int)copy.size(), av.data());
		std::cout.flush(); fflush(stdout);
		_exit(rc == 0 ? 0 : (rc & 0xff) ? (rc & 0xff) : 1);
	}
	close(pfd[1]);
	char buf[512];
	ssize_t n;
	while ((n = read(pfd[0], buf, sizeof buf)) > 0) if (r.out.size() < 4096) r.out.append(buf, (size_t)n);
	close(pfd[0]);
	int status = 0;
	while (waitpid(pid, &status, 0) < 0) {}
	if (WIFSIGNALED(status)) r.sig = WTERMSIG(status); else r.exit_code = WEXITSTATUS(status);
	return r;
}
std::string tool_death(const ToolOutcome &o) {
	if (o.sig == SIGALRM) return "hangs";
	if (o.sig) return "crash:sig" + std::to_string(o.sig);
	if (o.exit_code == 77) return "crash:sanitizer";
	return "";
}

void c07_tools(Env &env, const Json &tj, const Bytes &img, const std::string &fk) {
	RunCtx &ctx = env.ctx;
	// default-allocator readers: images whose headers ask for gigabytes are not given to them (ASan would
	// turn std::bad_alloc into a fatal report), nor images on which the reader itself is known to die
	if (alloc_hint(img) > (uint64_t(256) << 20) || !reader_hazard(img).cls.empty()) { ctx.count("c07:tools_skipped"); return; }
	disk::put("/sim/tool.fits", img);
	// the library's verdict and, for an accepted table, a point to evaluate at
	bool accepted = false;
	Snapshot snap;
	std::string expect_out;
	std::vector<double> x;
	bool lookup_ok = false;
	{
		TabBox box(env.L);
		Tab &t = box.make();
		ReadOutcome ro = cxx_read_disk(t, "/sim/tool.fits");
		env.drain("tools", true);
		accepted = ro.ok;
		if (!ro.ok && t.get_ndim()) box.abandon();
		if (accepted) {
			snap = snapshot(t);
			std::string why;
			if (!well_formed(snap.t, why)) { ctx.count("c07:tools_skipped"); return; }   // reported by oracle B already
			Rng r((uint64_t)tj.geti("seed"), "toolpoint");
			for (uint32_t d = 0; d < snap.t.ndim; d++) {
				const auto &k = snap.t.knots[d];
				double lo = k[snap.t.order[d]], hi = k[k.size() - snap.t.order[d] - 1];
				double v = lo + (hi - lo) * (0.05 + 0.9 * r.unit());
				// what the tool will parse from the text is what we evaluate at
				char b[40]; snprintf(b, sizeof b, "%.17g", v);
				x.push_back(strtod(b, nullptr));
			}
			std::vector<int> c(snap.t.ndim + 8);
			lookup_ok = t.searchcenters(x.data(), c.data());
			if (lookup_ok) { std::ostringstream os; os << t.ndsplineeval(x.data(), c.data(), 0) << std::endl; expect_out = os.str(); }
		}
	}
	env.nontrivial = true;
	ctx.count(accepted ? "c07:tools_on_accepted_image" : "c07:tools_on_rejected_image");
	// inspect
	{
		ctx.crumb("photospline-inspect|%s|tool", fk.c_str());
		ToolOutcome o = run_tool(psv_tool_inspect_main, {"photospline-inspect", "/sim/tool.fits"});
		std::string death = tool_death(o);
		ctx.log.ev("photospline-inspect: library %s -> exit=%d sig=%d", accepted ? "accepts" : "rejects", o.exit_code, o.sig);
		env.state("photospline-inspect", fk, !death.empty() ? death : o.exit_code == 0 ? "exit0" : "failed");
		if (!death.empty()) { ctx.violate("C07|safety|photospline-inspect|" + fk + "|tool-dies:" + death, "photospline-inspect " + death + " on an image the library " + (accepted ? "accepts" : "rejects")); return; }
		if (!accepted && o.exit_code == 0) { ctx.violate("C07|A|photospline-inspect|" + fk + "|exit-status-0-on-rejected-file", "the library rejects the file, photospline-inspect exits 0"); return; }
		if (accepted && o.exit_code != 0) { ctx.violate("C07|B|photospline-inspect|" + fk + "|fails-on-accepted-table", "the library reads the file, photospline-inspect exits " + std::to_string(o.exit_code) + (o.exit_code == 70 ? " (uncaught exception)" : "")); return; }
	}
	// eval
	{
		std::string mode = tj.gets("eval_args", "inside");
		uint32_t nd = accepted ? snap.t.ndim : 2;
		std::vector<std::string> args = {"photospline-eval", "/sim/tool.fits"};
		std::vector<double> xs = x;
		if (!accepted) xs.assign(nd, 0.5);
		if (mode == "outside" && accepted) xs[0] = snap.t.knots[0].front() - 1.0 - std::fabs(snap.t.knots[0].front());
		for (uint32_t d = 0; d < nd; d++) { char b[40]; snprintf(b, sizeof b, "%.17g", xs[d]); args.push_back(b); }
		if (mode == "too_many") args.push_back("0.5");
		if (mode == "too_few") args.pop_back();
		if (mode == "unparsable") args.back() = "abc";
		bool expect_ok = accepted && lookup_ok && mode == "inside";
		bool expect_fail = !accepted || mode == "too_many" || mode == "too_few" || mode == "unparsable" || mode == "outside" || !lookup_ok;
		ctx.crumb("photospline-eval|%s|tool %s", fk.c_str(), mode.c_str());
		ToolOutcome o = run_tool(psv_tool_eval_main, args);
		std::string death = tool_death(o);
		ctx.log.ev("photospline-eval %s: library %s lookup=%d -> exit=%d sig=%d out=%s", mode.c_str(), accepted ? "accepts" : "rejects", (int)lookup_ok, o.exit_code, o.sig, clip(o.out, 40).c_str());
		env.state("photospline-eval", fk + ":" + mode, !death.empty() ? death : o.exit_code == 0 ? "exit0" : "failed");
		ctx.count("c07:tool_eval_" + mode);
		if (!death.empty()) { ctx.violate("C07|safety|photospline-eval|" + fk + "|tool-dies:" + death, "photospline-eval (" + mode + ") " + death + " on an image the library " + (accepted ? "accepts" : "rejects")); return; }
		if (expect_fail && o.exit_code == 0) { ctx.violate("C07|A|photospline-eval|" + fk + "|exit-status-0:" + (accepted ? mode : std::string("rejected-file")), "photospline-eval exits 0 although " + (accepted ? "its arguments are " + mode : std::string("the library rejects the file"))); return; }
		if (expect_ok && o.exit_code != 0) { ctx.violate("C07|B|photospline-eval|" + fk + "|fails-on-accepted-table", "the library reads the file and evaluates at the point, photospline-eval exits " + std::to_string(o.exit_code)); return; }
		if (expect_ok && o.out != expect_out) { ctx.violate("C07|B|photospline-eval|" + fk + "|prints-another-value", "library: " + clip(expect_out, 30) + " tool: " + clip(o.out, 30)); return; }
		if (expect_ok) ctx.count("probe:tool_eval_matches_library");
	}
	disk::unlink("/sim/tool.fits");
}

void IoHarness::exec_c07(const Json &plan, Env &env) {
	RunCtx &ctx = env.ctx;
	TableSpec spec;
	Bytes base;
	std::string err;
	if (!plan_table(plan, spec, base, err)) { ctx.violate("C07|setup|plan|none|bad-plan", err); return; }
	// control load of the undamaged image: the "valid image" of oracle A, the peer of operator==
	TableSpec valid_table;
	{
		ctx.crumb("setup|control read");
		TabBox ctl(env.L);
		ReadOutcome ro = cxx_read_mem(ctl.make(), base);
		if (!ro.ok) { if (ctl.get().get_ndim()) ctl.abandon(); ctx.violate("C07|setup|read_fits_mem|none|valid-image-rejected", ro.what); return; }
		if (plan.gets("base") == "library") {
			try { ctl.get().write_fits("/sim/lib.fits"); } catch (std::exception &e) { env.drain("setup", true); ctx.violate("C07|setup|write_fits|none|valid-table-not-writable", e.what()); return; }
			env.drain("setup", true);
			Bytes lib;
			if (disk::get("/sim/lib.fits", lib)) {
				base = lib;
				TabBox again(env.L);
				ReadOutcome r2 = cxx_read_mem(again.make(), base);
				if (!r2.ok) { if (again.get().get_ndim()) again.abandon(); ctx.violate("C07|setup|read_fits_mem|none|library-image-rejected", r2.what); return; }
				valid_table = snapshot(again.get()).t;
			}
		}
		if (valid_table.ndim == 0) valid_table = snapshot(ctl.get()).t;
	}
	// damage
	Bytes img = base;
	std::string cclass = "none";
	int applied = 0;
	for (auto &op : plan["ops"].a) {
		std::string note;
		bool ok = apply_corruption(img, op, note);
		ctx.log.ev("corrupt %s -> %s %s size=%zu", op.dump().substr(0, 200).c_str(), ok ? "applied" : "inapplicable", clip(note, 80).c_str(), img.size());
		if (ok) { applied++; cclass = corruption_class(op); ctx.count("corrupt:" + cclass); env.nontrivial = true; }
		else ctx.count("corrupt:inapplicable");
	}
	ctx.log.ev("image %zu bytes h=%016llx applied=%d", img.size(), (unsigned long long)(img.empty() ? 0 : fnv1a(img.data(), img.size())), applied);
	std::string reader = plan.gets("reader", "read_fits");
	// default-allocator readers cannot take images whose headers ask for gigabytes (ASan would
	// turn std::bad_alloc into a fatal report): those go to the SimAlloc twin of the same reader
	if ((reader == "c_read" || reader == "c_read_mem") && alloc_hint(img) > (uint64_t(256) << 20)) {
		ctx.log.ev("image asks for a huge allocation: %s rerouted to the SimAlloc reader", reader.c_str());
		ctx.count("c07:c_reader_rerouted");
		reader = reader == "c_read" ? "read_fits" : "read_fits_mem";
	}
	C07Case c{*this, env, plan, base, valid_table, applied ? "corrupt" : "valid", cclass};
	bool c_api = reader == "c_read" || reader == "c_read_mem";
	// Memory readers hand the caller's buffer to cfitsio's memory driver, which
	// fetches whole 2880-byte records wherever the headers send it and does not
	// compare the position with the buffer size: an image that is shorter than its
	// headers claim (or not a multiple of 2880) makes it read beyond the buffer.
	// Whether that happens for this image is established in a forked child, so
	// that the batch process survives the sanitizer abort.
	{
		Hazard hz = reader_hazard(img);
		if (!hz.cls.empty()) {
			ctx.count("probe:read_hazard_probed_in_child");
			std::string how = dies_in_child([&]() {
				Ledger l2; Ledger::Scope sc2(l2);
				disk::put("/sim/in.fits", img);
				if (c_api) { struct splinetable h{nullptr}; readsplinefitstable("/sim/in.fits", &h); }
				else { alignas(Tab) static unsigned char raw[sizeof(Tab)]; Tab *t = new (raw) Tab(SimAlloc<void>(l2.new_owner())); try { t->read_fits("/sim/in.fits"); } catch (...) {} }
			});
			ctx.log.ev("guarded read (%s: %s): %s", hz.cls.c_str(), hz.what.c_str(), how.empty() ? "survived" : how.c_str());
			if (!how.empty()) {
				std::string opn = reader == "c_read" ? "readsplinefitstable" : reader == "c_read_mem" ? "readsplinefitstable_mem" : reader;
				env.state(opn, c.fk, "reader-crash");
				ctx.violate("C07|safety|" + opn + "|" + c.fk + "|reader-dies:" + hz.cls,
				            "the reader dies in a forked probe (" + how + ") on an image where " + hz.what);
				return;
			}
		}
	}
	bool suspicious = img.size() % 2880 != 0 || applied > 0;
	if ((reader == "read_fits_mem" || reader == "c_read_mem") && suspicious) {
		ctx.count("probe:mem_read_probed_in_child");
		std::string how = dies_in_child([&]() {
			Ledger l2; Ledger::Scope sc2(l2);
			Bytes copy = img;
			unsigned char dummy = 0;
			void *p = copy.empty() ? (void *)&dummy : (void *)copy.data();
			if (reader == "c_read_mem") { struct splinetable h{nullptr}; struct splinetable_buffer b; b.data = p; b.size = copy.size(); readsplinefitstable_mem(&b, &h); }
			else { alignas(Tab) static unsigned char raw[sizeof(Tab)]; Tab *t = new (raw) Tab(SimAlloc<void>(l2.new_owner())); try { t->read_fits_mem(p, copy.size()); } catch (...) {} }
		});
		ctx.log.ev("guarded %s of a %zu-byte buffer: %s", reader.c_str(), img.size(), how.empty() ? "survived" : how.c_str());
		if (!how.empty()) {
			std::string opn = reader == "c_read_mem" ? "readsplinefitstable_mem" : "read_fits_mem";
			env.state(opn, c.fk, "overread");
			ctx.violate("C07|safety|" + opn + "|" + c.fk + "|reads-beyond-buffer",
			            opn + " of a " + std::to_string(img.size()) + "-byte buffer (" + (img.size() % 2880 ? "not a" : "a") + " multiple of 2880) dies in a forked probe (" + how +
			            "): the FITS memory driver reads whole 2880-byte records past the end of the caller's buffer");
			return;
		}
	}
	uint64_t nreads = 0, nseeks = 0;
	std::vector<disk::Fault> none;
	uint64_t nallocs = 0;
	bool go = c_api ? c07_c(c, img, reader, none, &nreads, &nseeks) : c07_cxx(c, img, reader, none, &nreads, &nseeks, 0, &nallocs);
	if (!go || ctx.violation) return;
	// the same read again with I/O faults (disk readers only)
	const Json &rf = plan["read_faults"];
	if (rf.size() && reader != "read_fits_mem" && reader != "c_read_mem") {
		std::vector<disk::Fault> fl;
		for (auto &fj : rf.a) {
			disk::Fault f = fault_from(fj);
			uint64_t n = f.on == "read" ? nreads : f.on == "seek" ? nseeks : 0;
			if (!n) continue;
			f.at = (int64_t)((uint64_t)f.at % n);
			fl.push_back(f);
		}
		if (!fl.empty()) {
			c.fk = fl[0].on + "-fault";
			ctx.log.ev("read again with %zu I/O fault(s): %s:%s@%lld%s", fl.size(), fl[0].on.c_str(), fl[0].err.c_str(), (long long)fl[0].at, fl[0].persistent ? " persistent" : "");
			bool go2 = c_api ? c07_c(c, img, reader, fl, nullptr, nullptr) : c07_cxx(c, img, reader, fl, nullptr, nullptr);
			if (!go2 || ctx.violation) return;
		}
	}
	// the same read once more with one refused allocation (readers whose table takes the simulated allocator)
	if (plan.has("alloc_fault") && !c_api && nallocs) {
		uint64_t k = 1 + (uint64_t)plan["alloc_fault"].geti("at") % nallocs;
		c.fk = "alloc-fault";
		ctx.log.ev("read again with allocation %llu of %llu refused", (unsigned long long)k, (unsigned long long)nallocs);
		c07_cxx(c, img, reader, none, nullptr, nullptr, k, nullptr);
		if (ctx.violation) return;
	}
	if (plan.has("tools")) c07_tools(env, plan["tools"], img, applied ? "corrupt" : "valid");
}

} // namespace

namespace {

// ================================================================= C06
Json IoHarness::gen_c06(uint64_t runseed, const std::string &tier) {
	Rng gen(runseed, "gen"), knob(runseed, "knob");
	bool thorough = tier == "thorough";
	Json plan = Json::object();
	plan["prop"] = Json("C06");
	if (gen.chance(0.04)) plan["shipped"] = Json(SHIPPED[gen.below(N_SHIPPED)]);
	else {
		GenLimits lim;
		double u = gen.unit();
		lim.max_coeffs = u < 0.8 ? 3000 : u < 0.97 ? 40000 : (thorough ? 400000 : 120000);
		{
			// a few tables beyond 2^20 coefficients (several MB): whatever a writer or reader does in slices, through
			// counters of limited width or at cfitsio's buffer limits shows only there (own stream)
			Rng hg(runseed, "huge_table");
			if (hg.chance(thorough ? 0.01 : 0.004)) { lim.min_coeffs = 1100000; lim.max_coeffs = 1600000; lim.max_dims = 4; lim.max_order = 3; lim.max_aux = 6; }
		}
		TableDesc d = gen_table(gen, lim);
		plan["table"] = d.to_json();
	}
	plan["config"] = gen_config(knob, true);
	// A third of the runs store further keys through write_key before writing: what a table can hold is
	// not only what a file could give it. Whatever write_key accepts is part of the table and must survive
	// (lengths around the capacity of a card, for standard and for HIERARCH keys; quotes, blanks, slashes).
	{
		Rng kr(runseed, "c06keys");
		if (kr.chance(0.35)) {
			Json keys = Json::array();
			size_t n = 1 + (size_t)kr.below(4);
			for (size_t i = 0; i < n; i++) {
				static const char *stdk[] = {"WK1", "WKEY2", "ABCDEFGH", "W-K_3"};
				std::string key;
				if (kr.chance(0.45)) key = stdk[kr.below(4)];
				else { size_t len = 9 + (size_t)kr.below(kr.chance(0.7) ? 12 : 50); for (size_t c = 0; c < len; c++) key += (char)('A' + (c * 5 + len + i) % 26); }
				size_t room = key.size() <= 8 ? 68 : (key.size() + 13 < 80 ? 80 - 13 - key.size() : 0);
				std::string val;
				int w = (int)kr.below(100);
				size_t len = w < 30 ? room : w < 45 ? (room ? room - 1 : 0) : w < 60 ? room + 1 : w < 70 ? (room > 2 ? room - 2 : 0) : (size_t)kr.below(room + 1);
				for (size_t c = 0; c < len; c++) val += (char)('a' + (c * 7 + i) % 26);
				int deco = (int)kr.below(100);
				if (!val.empty()) {
					if (deco < 12) val[kr.below(val.size())] = '\'';
					else if (deco < 20) val[val.size() - 1] = '\'';
					else if (deco < 28) val[kr.below(val.size())] = '/';
					else if (deco < 36) val[0] = ' ';
					else if (deco < 42) val[kr.below(val.size())] = '&';
				}
				Json kv = Json::object(); kv["key"] = Json(key); kv["value"] = Json(val);
				keys.push(kv);
			}
			plan["keys"] = keys;
		}
	}
	Json ops = Json::array();
	auto add = [&](const char *o) { Json j = Json::object(); j["op"] = Json(o); ops.push(j); };
	add("disk");
	add("mem");
	if (gen.chance(0.4)) add("c_disk");
	if (gen.chance(0.3)) add("c_mem");
	plan["ops"] = ops;
	Json ev = Json::object();
	ev["seed"] = Json((long long)(gen.next() >> 20));
	ev["points"] = Json(thorough ? 24 : 12);
	plan["eval"] = ev;
	return plan;
}

// evaluation of two tables at the same points must give the same bits
std::string eval_diff(Env &env, const Tab &a, const Tab &b, const TableSpec &t, uint64_t seed, int npoints) {
	Rng r(seed, "eval");
	uint32_t nd = t.ndim;
	std::vector<double> x(nd);
	std::vector<int> ca(nd + 8), cb(nd + 8);
	int compared = 0;
	for (int p = 0; p < npoints; p++) {
		for (uint32_t d = 0; d < nd; d++) {
			const auto &k = t.knots[d];
			double lo = k[t.order[d]], hi = k[k.size() - t.order[d] - 1];
			x[d] = r.chance(0.15) ? k[r.below(k.size())] : lo + (hi - lo) * r.unit();
		}
		env.ctx.crumb("eval|searchcenters");
		bool oa = a.searchcenters(x.data(), ca.data()), ob = b.searchcenters(x.data(), cb.data());
		if (oa != ob) return "lookup";
		if (!oa) continue;
		for (uint32_t d = 0; d < nd; d++) if (ca[d] != cb[d]) return "centers";
		env.ctx.crumb("eval|ndsplineeval");
		int mask = 0;
		if (nd <= 30 && r.chance(0.3)) { uint32_t dd = (uint32_t)r.below(nd); if (t.order[dd] > 0) mask = 1 << dd; }
		double va = a.ndsplineeval(x.data(), ca.data(), mask), vb = b.ndsplineeval(x.data(), cb.data(), mask);
		compared++;
		if (std::isnan(va) && std::isnan(vb)) continue;
		if (memcmp(&va, &vb, 8)) return "value";
	}
	env.ctx.count("c06:eval_points_compared", compared);
	return "";
}

void IoHarness::exec_c06(const Json &plan, Env &env) {
	RunCtx &ctx = env.ctx;
	TableSpec spec;
	Bytes imgA;
	std::string err;
	bool is_shipped = plan.has("shipped");
	if (!plan_table(plan, spec, imgA, err)) {
		// a shipped file the independent parser cannot decode is itself a finding
		ctx.violate(is_shipped ? "C06|golden|decode_fits|none|shipped-file-not-in-documented-layout" : "C06|setup|plan|none|bad-plan", err);
		return;
	}
	TableSpec want = expected_after_read(spec);
	disk::Config cfg = config_from(plan["config"]);
	// class of this run for the coverage count: table shape x content classes x I/O knobs
	{
		std::string cls = std::to_string(spec.ndim) + "|" + plan["table"].gets("coeffs", "shipped") + "|" + plan["table"].gets("knots") + "|" + plan["table"].gets("aux") + "|" +
		                  (spec.single_order ? "so" : "") + (spec.has_extents ? "" : "ne") + (spec.has_periods ? "" : "np") + "|" + std::to_string(cfg.bufsize) + "|" +
		                  std::to_string(cfg.short_write_permille) + "|" + std::to_string(cfg.short_read_permille) + "|" + std::to_string(cfg.max_chunk) + "|" +
		                  std::to_string(std::min<size_t>(spec.aux.size(), 40) / 8) + "|" + std::to_string((int)std::log2((double)spec.ncoeffs() + 1));
		ctx.seen("nontrivial", fnv1a(cls));
		ctx.count(std::string("c06:dims_") + std::to_string(spec.ndim));
		if (spec.single_order) ctx.count("probe:legacy_single_order");
		if (!spec.has_extents) ctx.count("probe:legacy_no_extents");
		if (!spec.has_periods) ctx.count("probe:legacy_no_periods");
		if (spec.ext_reversed) ctx.count("probe:extensions_out_of_order");
	}
	if (is_shipped) {
		ctx.count("probe:golden_checked");
		if (!golden_loaded) { ctx.violate("C06|golden|setup|none|golden-file-missing", golden_path() + " not readable (run `psv_io.asan golden --write`)"); return; }
		std::string g = golden["files"][plan.gets("shipped")].gets("digest");
		std::string have = hex64(want.digest());
		ctx.log.ev("golden %s want=%s independent-decode=%s", plan.gets("shipped").c_str(), g.c_str(), have.c_str());
		if (g != have) { ctx.violate("C06|golden|decode_fits|none|digest-changed", plan.gets("shipped") + ": recorded " + g + ", file decodes to " + have); return; }
	}
	// ---- a: image from the independent writer (or shipped) -> read_fits
	disk::put("/sim/a.fits", imgA);
	disk::set_config(cfg);
	TabBox A(env.L);
	ctx.crumb("read_fits|none|independent image");
	ReadOutcome ro = cxx_read_disk(A.make(), "/sim/a.fits");
	env.drain("read-a", false);
	const char *src = is_shipped ? "shipped-image" : "indep-image";
	if (!ro.ok) {
		if (A.get().get_ndim()) A.abandon();
		ctx.violate(std::string("C06|") + src + "|read_fits|none|rejected", "image in the documented layout rejected: " + clip(ro.what, 120));
		return;
	}
	Snapshot sA = snapshot(A.get());
	bool pdiff = false;
	std::string d = full_diff(want, sA.t, true, &pdiff);
	if (d.empty()) d = strides_diff(sA);
	ctx.log.ev("read a: digest=%016llx diff=%s", (unsigned long long)sA.t.digest(), d.empty() ? "-" : d.c_str());
	if (pdiff) ctx.count("probe:period_changed");
	if (!d.empty()) { ctx.violate(std::string("C06|") + src + "|read_fits|none|" + d + "-differs", "table loaded from the independent image differs in " + d); return; }
	if (is_shipped) {
		std::string g = golden["files"][plan.gets("shipped")].gets("digest");
		if (hex64(sA.t.digest()) != g) { ctx.violate("C06|golden|read_fits|none|digest-changed", plan.gets("shipped") + ": recorded " + g + ", library loads " + hex64(sA.t.digest())); return; }
	}
	// ---- further keys through write_key: accepted ones belong to the table from here on
	// (the C handles are loaded from the image and do not have them: they are compared with sA0)
	const Snapshot sA0 = sA;
	if (plan.has("keys")) {
		size_t accepted = 0;
		for (auto &kv : plan["keys"].a) {
			std::string key = kv.gets("key"), val = kv.gets("value");
			ctx.crumb("write_key|none|%zu-char key, %zu-char value", key.size(), val.size());
			bool ok = false;
			try { ok = A.get().write_key(key.c_str(), val); } catch (std::exception &) { ok = false; }
			ctx.log.ev("write_key keylen=%zu vallen=%zu -> %s", key.size(), val.size(), ok ? "accepted" : "refused");
			if (ok) accepted++;
		}
		ctx.count("c06:keys_offered", (int64_t)plan["keys"].size());
		ctx.count("c06:keys_accepted", (int64_t)accepted);
		if (accepted) { ctx.count("probe:table_with_keys_stored_through_write_key"); sA = snapshot(A.get()); }
	}
	bool nan = has_nan(sA.t);
	const Json &ev = plan["eval"];
	uint64_t eseed = (uint64_t)ev.geti("seed");
	int epts = (int)ev.geti("points", 12);

	// checks shared by every written image: independent parse, re-read, ==, evaluation
	auto check_written = [&](const Bytes &out, const char *wop, bool mem, const Snapshot &sA) -> bool {
		TableSpec dec;
		std::string derr;
		if (!decode_fits(out, dec, derr)) { ctx.violate(std::string("C06|layout|") + wop + "|none|not-in-documented-layout", derr); return false; }
		bool pd = false;
		std::string dd = full_diff(sA.t, dec, true, &pd);
		if (dd.empty() && (!dec.has_extents || dec.single_order)) dd = "layout-variant";
		ctx.log.ev("%s: %zu bytes, independent parse diff=%s", wop, out.size(), dd.empty() ? "-" : dd.c_str());
		if (pd) ctx.count("probe:period_changed");
		if (!dd.empty()) { ctx.violate(std::string("C06|layout|") + wop + "|none|" + dd + "-differs", "independent parser recovers a different " + dd + " from the bytes written"); return false; }
		TabBox B(env.L);
		ctx.crumb("%s|none|re-read", mem ? "read_fits_mem" : "read_fits");
		ReadOutcome rb;
		if (mem) rb = cxx_read_mem(B.make(), out);
		else { disk::put("/sim/b2.fits", out); rb = cxx_read_disk(B.make(), "/sim/b2.fits"); env.drain("reread", false); }
		if (!rb.ok) { if (B.get().get_ndim()) B.abandon(); ctx.violate(std::string("C06|reread|") + wop + "|none|rejected", clip(rb.what, 120)); return false; }
		Snapshot sB = snapshot(B.get());
		std::string d2 = full_diff(sA.t, sB.t, true, &pd);
		if (d2.empty()) d2 = strides_diff(sB);
		if (pd) ctx.count("probe:period_changed");
		if (!d2.empty()) { ctx.violate(std::string("C06|reread|") + wop + "|none|" + d2 + "-differs", "table read back differs in " + d2); return false; }
		ctx.crumb("operator==|none|re-read");
		bool eq = A.get() == B.get(), eq2 = B.get() == A.get();
		if (!nan && !(eq && eq2)) { ctx.violate(std::string("C06|reread|") + wop + "|none|operator==-false", "field-by-field identical, NaN-free tables compare unequal"); return false; }
		if (nan) ctx.count("probe:nan_table_compared");
		std::string de = eval_diff(env, A.get(), B.get(), sA.t, eseed, epts);
		if (!de.empty()) { ctx.violate(std::string("C06|reread|") + wop + "|none|eval-" + de + "-differs", "evaluation of the re-read table differs"); return false; }
		return true;
	};

	for (auto &op : plan["ops"].a) {
		std::string kind = op.gets("op");
		ctx.count("c06:op_" + kind);
		if (kind == "disk") {
			disk::set_config(cfg);
			ctx.crumb("write_fits|none|benign");
			try { A.get().write_fits("/sim/b.fits"); }
			catch (std::exception &e) { env.drain("write-b", false); ctx.violate("C06|write|write_fits|none|threw", clip(e.what(), 120)); return; }
			env.drain("write-b", false);
			Bytes out;
			if (!disk::get("/sim/b.fits", out)) { ctx.violate("C06|write|write_fits|none|no-file", ""); return; }
			if (!check_written(out, "write_fits", false, sA)) return;
		} else if (kind == "mem") {
			ctx.crumb("write_fits_mem|none|benign");
			Bytes out;
			try { auto pr = A.get().write_fits_mem(); out.assign((uint8_t *)pr.first, (uint8_t *)pr.first + pr.second); free(pr.first); }
			catch (std::exception &e) { ctx.violate("C06|write|write_fits_mem|none|threw", clip(e.what(), 120)); return; }
			if (!check_written(out, "write_fits_mem", true, sA)) return;
		} else if (kind == "c_disk" || kind == "c_mem") {
			struct splinetable h{nullptr};
			disk::set_config(cfg);
			ctx.crumb("readsplinefitstable|none|independent image");
			Bytes copyA = imgA;
			int rc;
			if (kind == "c_mem") { struct splinetable_buffer b; b.data = copyA.data(); b.size = copyA.size(); rc = readsplinefitstable_mem(&b, &h); }
			else rc = readsplinefitstable("/sim/a.fits", &h);
			env.drain("c-read", false);
			const char *rop = kind == "c_mem" ? "readsplinefitstable_mem" : "readsplinefitstable";
			if (rc) { ctx.violate(std::string("C06|") + src + "|" + rop + "|none|rejected", "status " + std::to_string(rc)); return; }
			struct Free { struct splinetable *h; ~Free() { splinetable_free(h); } } fr{&h};
			Snapshot sC = snapshot_c(&h);
			std::string dc = full_diff(want, sC.t, false);
			if (dc.empty()) dc = strides_diff(sC);
			if (!dc.empty()) { ctx.violate(std::string("C06|") + src + "|" + rop + "|none|" + dc + "-differs", "C handle differs in " + dc); return; }
			Bytes out;
			const char *wop = kind == "c_mem" ? "writesplinefitstable_mem" : "writesplinefitstable";
			ctx.crumb("%s|none|benign", wop);
			if (kind == "c_mem") {
				struct splinetable_buffer ob{nullptr, 0};
				int wrc = writesplinefitstable_mem(&ob, &h);
				if (wrc) { ctx.violate(std::string("C06|write|") + wop + "|none|threw", "status " + std::to_string(wrc)); return; }
				out.assign((uint8_t *)ob.data, (uint8_t *)ob.data + ob.size);
				free(ob.data);
			} else {
				int wrc = writesplinefitstable("/sim/c.fits", &h);
				env.drain("c-write", false);
				if (wrc) { ctx.violate(std::string("C06|write|") + wop + "|none|threw", "status " + std::to_string(wrc)); return; }
				if (!disk::get("/sim/c.fits", out)) { ctx.violate(std::string("C06|write|") + wop + "|none|no-file", ""); return; }
			}
			if (!check_written(out, wop, kind == "c_mem", sA0)) return;
		}
	}
	disk::set_config(disk::Config());
}

} // namespace

namespace {

// ================================================================= shrinking
std::vector<Json> IoHarness::simplify(const Json &plan, const Json &aux) {
	std::vector<Json> out;
	std::string prop = plan.gets("prop");
	// 1. an enumeration that found something -> the one explicit op that did
	if (aux.has("explicit") && plan["ops"].size() >= 1) {
		bool already = plan["ops"].size() == 1 && plan["ops"].a[0].dump() == aux["explicit"].dump();
		if (!already) { Json c = plan; c["ops"] = Json::array(); c["ops"].push(aux["explicit"]); out.push_back(c); }
	}
	// 2. a shipped base table -> nothing smaller; a generated one -> simpler descriptions
	if (plan.has("table")) {
		TableDesc d;
		std::string err;
		if (TableDesc::from_json(plan["table"], d, err))
			for (auto &s : simplify_desc(d)) { Json c = plan; c["table"] = s.to_json(); out.push_back(c); }
	}
	// 3. plainer I/O configuration
	if (plan.has("config")) {
		const Json &cf = plan["config"];
		if (cf.geti("short_write_permille") || cf.geti("short_read_permille") || cf.geti("max_chunk")) {
			Json c = plan; c["config"]["short_write_permille"] = Json(0); c["config"]["short_read_permille"] = Json(0); c["config"]["max_chunk"] = Json(0); out.push_back(c);
		}
		if (cf.geti("bufsize", -1) != -1) { Json c = plan; c["config"]["bufsize"] = Json(-1); out.push_back(c); }
	}
	if (prop == "C08") {
		if (plan.has("preexisting")) {
			{ Json c = plan; c.erase("preexisting"); c.erase("old_table"); out.push_back(c); }
			if (plan.gets("preexisting") == "other") { Json c = plan; c["preexisting"] = Json("same_shape"); c.erase("old_table"); out.push_back(c); }
		}
		if (plan.gets("writer") == "c") { Json c = plan; c["writer"] = Json("cxx"); out.push_back(c); }
		for (size_t i = 0; i < plan["ops"].size(); i++) {
			const Json &op = plan["ops"].a[i];
			if (op.gets("op") == "fault") {
				const Json &fl = op["faults"];
				for (size_t k = 0; k < fl.size(); k++) {
					if (fl.size() > 1) { Json c = plan; auto &v = c["ops"].a[i]["faults"].a; v.erase(v.begin() + (long)k); out.push_back(c); }
					if (fl.a[k].getb("persistent") && fl.a[k].gets("on") != "quota") { Json c = plan; c["ops"].a[i]["faults"].a[k]["persistent"] = Json(false); out.push_back(c); }
					if (fl.a[k].geti("arg") && fl.a[k].gets("on") != "quota") { Json c = plan; c["ops"].a[i]["faults"].a[k]["arg"] = Json(0); out.push_back(c); }
					std::string e = fl.a[k].gets("err");
					if (e.compare(0, 6, "short_") == 0) { Json c = plan; c["ops"].a[i]["faults"].a[k]["err"] = Json(e.substr(6)); out.push_back(c); }
				}
			} else if (op.gets("op") == "mem_fault") {
				if (op.getb("persistent")) { Json c = plan; c["ops"].a[i]["persistent"] = Json(false); out.push_back(c); }
			} else if (op.gets("op") == "crash") {
				if (op.geti("b")) { Json c = plan; c["ops"].a[i]["b"] = Json(0); out.push_back(c); }
				if (op.gets("reader") == "mem") { Json c = plan; c["ops"].a[i]["reader"] = Json("disk"); out.push_back(c); }
			}
		}
	}
	if (prop == "C07") {
		if (plan.has("tools")) { Json c = plan; c.erase("tools"); out.push_back(c); }
		std::string rd = plan.gets("reader");
		if (plan["read_faults"].size()) {
			Json c = plan; c["read_faults"] = Json::array(); out.push_back(c);
			for (size_t k = 0; k < plan["read_faults"].size(); k++) {
				if (plan["read_faults"].size() > 1) { Json c2 = plan; auto &v = c2["read_faults"].a; v.erase(v.begin() + (long)k); out.push_back(c2); }
				if (plan["read_faults"].a[k].getb("persistent")) { Json c2 = plan; c2["read_faults"].a[k]["persistent"] = Json(false); out.push_back(c2); }
			}
		}
		if (plan.gets("base") == "library") { Json c = plan; c["base"] = Json("codec"); out.push_back(c); }
		// the reader is part of the signature, so it is not changed
		for (size_t i = 0; i < plan["ops"].size(); i++) {
			const Json &op = plan["ops"].a[i];
			if (op.gets("c") == "overwrite" && op.gets("hex").size() > 2) { Json c = plan; c["ops"].a[i]["hex"] = Json(op.gets("hex").substr(0, 2 * (op.gets("hex").size() / 4 ? op.gets("hex").size() / 4 : 1))); out.push_back(c); }
		}
	}
	if (prop == "C06") {
		if (plan.has("keys")) {
			{ Json c = plan; c.erase("keys"); out.push_back(c); }
			for (size_t k = 0; plan["keys"].size() > 1 && k < plan["keys"].size(); k++) { Json c = plan; auto &v = c["keys"].a; v.erase(v.begin() + (long)k); out.push_back(c); }
		}
		if (plan["eval"].geti("points") > 2) { Json c = plan; c["eval"]["points"] = Json(plan["eval"].geti("points") / 2); out.push_back(c); }
	}
	return out;
}

// ================================================================= golden digests
// `golden --write` decodes the ten shipped files with the independent parser,
// cross-checks the library's reader against it and records the digests. The
// checks only ever read the file.
int cmd_golden(int argc, char **argv) {
	bool write = false;
	std::string out = golden_path();
	for (int i = 2; i < argc; i++) {
		std::string a = argv[i];
		if (a == "--write") write = true;
		else if (a == "--out" && i + 1 < argc) out = argv[++i];
	}
	Json files = Json::object();
	int bad = 0;
	for (size_t i = 0; i < N_SHIPPED; i++) {
		Bytes b;
		std::string path = repo_dir() + "/test/test_data/" + SHIPPED[i];
		if (!slurp(path, b)) { fprintf(stderr, "cannot read %s\n", path.c_str()); bad++; continue; }
		TableSpec t;
		std::string err;
		if (!decode_fits(b, t, err)) { fprintf(stderr, "%s: %s\n", SHIPPED[i], err.c_str()); bad++; continue; }
		TableSpec want = expected_after_read(t);
		disk::reset();
		Ledger L;
		Ledger::Scope sc(L);
		uint64_t libd = 0;
		{
			TabBox box(L);
			ReadOutcome ro = cxx_read_mem(box.make(), b);
			if (!ro.ok) { fprintf(stderr, "%s: library rejects it: %s\n", SHIPPED[i], ro.what.c_str()); if (box.get().get_ndim()) box.abandon(); bad++; continue; }
			libd = snapshot(box.get()).t.digest();
		}
		Json e = Json::object();
		e["digest"] = Json(hex64(want.digest()));
		e["bytes"] = Json((long long)b.size());
		e["file_fnv1a"] = Json(hex64(fnv1a(b.data(), b.size())));
		e["ndim"] = Json((long long)t.ndim);
		Json na = Json::array(); for (auto x : t.naxes) na.push(Json((long long)x));
		e["naxes"] = na;
		Json od = Json::array(); for (auto x : t.order) od.push(Json((long long)x));
		e["order"] = od;
		e["naux"] = Json((long long)t.aux.size());
		files[SHIPPED[i]] = e;
		bool agree = libd == want.digest();
		printf("%-28s %s  ndim=%u ncoeffs=%llu library-agrees=%s\n", SHIPPED[i], hex64(want.digest()).c_str(), t.ndim, (unsigned long long)t.ncoeffs(), agree ? "yes" : "NO");
		if (!agree) bad++;
	}
	if (bad) { fprintf(stderr, "golden: %d problem(s), nothing written\n", bad); return 2; }
	if (write) {
		Json g = Json::object();
		g["comment"] = Json("FNV-1a digests (TableSpec::digest: ndim, orders, axis lengths, knots, coefficient bit patterns, extents, aux keys) of the ten reference files in test/test_data, "
		                    "computed by the independent parser sim/fitscodec.cpp; written by `psv_io.asan golden --write`, only read by the checks");
		g["files"] = files;
		g.save(out);
		printf("written %s\n", out.c_str());
	} else {
		Json have;
		try { have = Json::load(out); } catch (...) { fprintf(stderr, "no golden file at %s\n", out.c_str()); return 1; }
		int diff = 0;
		for (size_t i = 0; i < N_SHIPPED; i++)
			if (have["files"][SHIPPED[i]].gets("digest") != files[SHIPPED[i]].gets("digest")) { printf("DIFFERS %s\n", SHIPPED[i]); diff++; }
		printf("golden: %d difference(s)\n", diff);
		return diff ? 1 : 0;
	}
	return 0;
}

} // namespace

int main(int argc, char **argv) {
	if (argc > 1 && std::string(argv[1]) == "golden") return cmd_golden(argc, argv);
	IoHarness h;
	return harness_main(argc, argv, h);
}
