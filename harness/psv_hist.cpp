// psv_hist — deterministic simulation of table-object histories (C16, C18, C19, C20).
//
// Real code under test: include/photospline/splinetable.h and
// detail/{aux,fitsio,fit,convolve,permute,grideval}.h instantiated with the
// simulator's allocator, src/cinter/splinetable.cpp (C18), src/fitter/*.c, the
// static cfitsio with its disk and memory drivers, glibc stdio.
// Simulated: the allocator behind splinetable<Alloc> (sim/simalloc.h: ledger,
// failure injector, fixed arena) and the kernel file object under /sim/
// (sim/simdisk).
//
// A run is a pure function of its plan (JSON); the plan is a pure function of
// (property, runseed, tier). See DESIGN.md §3.2, §3.5, §3.7, §4 (C16 C18 C19 C20).
//
// One translation unit, split for readability: this file holds the shared
// machinery and the Harness; the generator/executor of each property is in
// psv_hist_c20.inc, psv_hist_c16.inc, psv_hist_c19.inc, psv_hist_c18.inc.
// Debugging aids: PSV_HIST_TRACE=<run index> prints that run's event log to
// stderr in `run` mode; PSV_HIST_DEBUG=1 prints leaked blocks / learnt block sizes;
// PSV_KEEP_STDERR=1 keeps what the C wrappers print.
//
// Conventions shared by the four properties
//  * a *history* is plan["ops"]; every op is executed on the real objects and
//    on the reference model (sim/model.h) and compared afterwards;
//  * the ledger mirror (Mirror) knows the size of every live allocator block;
//    after every op the multiset of live block sizes must equal what the
//    objects, according to the model, own (TableModel::expected_blocks):
//    blocks *missing* = an object holds dangling / uninitialised pointers
//    (the history ends there, the object is never touched again, nothing
//    undefined is executed); blocks *extra* = storage was abandoned (reported,
//    remembered as lost, the history continues);
//  * states whose continuation is undefined behaviour are recognised before the
//    undefined step; where only a crash can prove a defect the call is first
//    tried in a forked child (dies_in_child);
//  * signatures: "<prop>|<oracle>|<op>|<fault-kind>|<symptom>".
#include "sim/harness.h"
#include "sim/simalloc.h"
#include "sim/simdisk.h"
#include "sim/fitscodec.h"
#include "sim/tablegen.h"
#include "sim/model.h"
#include <algorithm>
#include <array>
#include <cfloat>
#include <climits>
#include <cmath>
#include <cstring>
#include <functional>
#include <memory>
#include <new>
#include <sstream>
#include <fcntl.h>
#include <sys/wait.h>
#include <unistd.h>

#include "photospline/splinetable.h"
#include "photospline/cinter/splinetable.h"

// ---------------------------------------------------------------- link-time seams of this binary
extern "C" {
void ffcmsg(void);
void __wrap_ffrprt(FILE *stream, int status);
int __real_cholmod_l_start(cholmod_common *);
int __wrap_cholmod_l_start(cholmod_common *);
int __sanitizer_install_malloc_and_free_hooks(void (*)(const volatile void *, size_t), void (*)(const volatile void *));
size_t __sanitizer_get_current_allocated_bytes(void);
}
// cfitsio's error printer: drain the message stack like the original, stay silent
extern "C" void __wrap_ffrprt(FILE *, int status) { if (status) ffcmsg(); }
// CHOLMOD chooses between its own simplicial loops and BLAS-backed supernodal
// code by a flop heuristic; OpenBLAS kernels round differently depending on
// buffer alignment, i.e. on heap history. Forcing the simplicial code makes
// every fitted number a function of the plan (same seam as psv_sched).
extern "C" int __wrap_cholmod_l_start(cholmod_common *c) {
	int r = __real_cholmod_l_start(c);
	c->supernodal = CHOLMOD_SIMPLICIAL;
	return r;
}

using namespace psv;

namespace {

typedef photospline::splinetable<SimAlloc<void>> Tab;

std::string clip(const std::string &s, size_t n = 120) {
	std::string r = s.size() > n ? s.substr(0, n) : s;
	for (auto &c : r) if ((unsigned char)c < 0x20 || (unsigned char)c >= 0x7f) c = '?';
	return r;
}
uint64_t dbits(double v) { uint64_t u; if (std::isnan(v)) return 0x7ff8000000000000ULL; memcpy(&u, &v, 8); return u; }
std::string sizes_str(const std::vector<size_t> &v, size_t max = 8) {
	std::string s = "[";
	for (size_t i = 0; i < v.size() && i < max; i++) { if (i) s += ","; s += std::to_string(v[i]); }
	if (v.size() > max) s += ",...(" + std::to_string(v.size()) + ")";
	return s + "]";
}

// ---------------------------------------------------------------- deferred findings
// A run reports one signature (the first). A few findings are frequent, leave
// everything in a well-defined state and say "the API disagrees with the
// property's wording" rather than "something broke" (write_key's return value
// on overwrite, swap-style move assignment, the disk reader's replace
// semantics in the C interface, the extent-less stacked table). They are logged
// where they occur but handed to the run's verdict only if nothing else was
// found, so that they cannot hide rarer findings later in the same history.
struct Deferred { std::string sig, detail; };
std::vector<Deferred> g_deferred;
void defer_violation(RunCtx &ctx, const std::string &sig, const std::string &detail) {
	std::string sg = sig;
	for (char &c : sg) if (c == ' ' || c == '\n' || c == '\t') c = '_';
	ctx.log.ev("DEFERRED %s", sg.c_str());
	if (g_deferred.size() < 64) g_deferred.push_back(Deferred{sg, detail});
}
void flush_deferred(RunCtx &ctx) {
	if (g_deferred.empty()) return;
	bool have_own = ctx.violation && ctx.sig.compare(0, ctx.prop.size() + 1, ctx.prop + "|") == 0;
	if (!have_own) {
		// the first of the property being checked, else the first
		const Deferred *pick = &g_deferred[0];
		for (auto &d : g_deferred) if (d.sig.compare(0, ctx.prop.size() + 1, ctx.prop + "|") == 0) { pick = &d; break; }
		ctx.violate(pick->sig, pick->detail);
	}
	g_deferred.clear();
}

// ---------------------------------------------------------------- guarded execution
// Runs `fn` in a forked child with output silenced and reports how the child
// ended: "" = it returned, otherwise "crash:sanitizer" / "crash:sigN" /
// "crash:exitN". Used where the property's defect can only show as a crash:
// the state is recognised and reported instead of killing the batch process.
std::string dies_in_child(const std::function<void()> &fn);
// The outcome of a guarded call is a function of (code, input): within one
// process it is established once per key and remembered (forking a sanitized
// process costs milliseconds).
std::string dies_in_child_cached(const std::string &key, const std::function<void()> &fn) {
	static std::map<std::string, std::string> cache;
	auto it = cache.find(key);
	if (it != cache.end()) return it->second;
	std::string how = dies_in_child(fn);
	if (cache.size() < 20000) cache[key] = how;
	return how;
}
std::string dies_in_child(const std::function<void()> &fn) {
	fflush(stdout); fflush(stderr);
	pid_t pid = fork();
	if (pid < 0) return "";
	if (pid == 0) {
		int nul = open("/dev/null", O_WRONLY);
		if (nul >= 0) { dup2(nul, 2); dup2(nul, 1); }
		alarm(20);
		try { fn(); } catch (...) {}
		_exit(0);
	}
	int status = 0;
	while (waitpid(pid, &status, 0) < 0) {}
	if (WIFEXITED(status) && WEXITSTATUS(status) == 0) return "";
	char b[48];
	if (WIFSIGNALED(status)) snprintf(b, sizeof b, "crash:sig%d", WTERMSIG(status));
	else if (WEXITSTATUS(status) == 77) snprintf(b, sizeof b, "crash:sanitizer");
	else snprintf(b, sizeof b, "crash:exit%d", WEXITSTATUS(status));
	return b;
}

// ---------------------------------------------------------------- ledger mirror
// The ledger never exposes addresses; through its event stream the mirror
// keeps (owner, ordinal) -> bytes of every live block, which is all the
// ownership oracle needs.
struct Mirror {
	std::map<int, std::map<uint64_t, size_t>> live;
	uint64_t injected = 0, refused = 0, hard_refused = 0, null_free_nonzero = 0, violations = 0, allocs = 0;
	void attach(Ledger &L) {
		L.on_event = [this](const Ledger::Event &e) {
			switch (e.kind) {
			case Ledger::Alloc: live[e.owner][e.ordinal] = e.bytes; allocs++; break;
			case Ledger::Free: { auto it = live.find(e.owner); if (it != live.end()) { it->second.erase(e.ordinal); if (it->second.empty()) live.erase(it); } break; }
			case Ledger::InjectedFailure: injected++; break;
			case Ledger::CapacityRefused: refused++; break;
			case Ledger::HardCapRefused: hard_refused++; break;
			case Ledger::NullFree: if (e.bytes) null_free_nonzero++; break;
			case Ledger::Violation:
				// a block released under a wrong size leaves the ledger's live set (quarantined)
				violations++;
				if (e.ordinal) for (auto it = live.begin(); it != live.end();) { it->second.erase(e.ordinal); if (it->second.empty()) it = live.erase(it); else ++it; }
				break;
			}
		};
	}
	// sizes of all live blocks (zero-byte blocks left out), sorted
	std::vector<size_t> sizes() const {
		std::vector<size_t> v;
		for (auto &o : live) for (auto &b : o.second) if (b.second) v.push_back(b.second);
		std::sort(v.begin(), v.end());
		return v;
	}
	std::vector<size_t> sizes_of(int owner) const {
		std::vector<size_t> v;
		auto it = live.find(owner);
		if (it != live.end()) for (auto &b : it->second) if (b.second) v.push_back(b.second);
		std::sort(v.begin(), v.end());
		return v;
	}
	size_t blocks_of(int owner) const { auto it = live.find(owner); return it == live.end() ? 0 : it->second.size(); }
};

void multiset_diff(const std::vector<size_t> &actual, const std::vector<size_t> &expected, std::vector<size_t> &extra, std::vector<size_t> &missing) {
	extra.clear(); missing.clear();
	std::set_difference(actual.begin(), actual.end(), expected.begin(), expected.end(), std::back_inserter(extra));
	std::set_difference(expected.begin(), expected.end(), actual.begin(), actual.end(), std::back_inserter(missing));
}

// ---------------------------------------------------------------- table objects
// Lifetime managed by hand: an object recognised in a bad state is never
// destroyed (its storage is simply left to the ledger's reset).
struct Box {
	alignas(Tab) unsigned char buf[sizeof(Tab)];
	bool live = false;
	int owner = 0;          // owner id given to the allocator at construction (bookkeeping only)
	TableModel m;
	Box() {}
	Box(const Box &) = delete;
	Tab &get() { return *std::launder(reinterpret_cast<Tab *>(buf)); }
	void destroy() { if (live) { live = false; get().~Tab(); } }
	void forget() { live = false; }   // intentionally leak
};

// ---------------------------------------------------------------- per-run environment
struct Env {
	RunCtx &ctx;
	Ledger &L;
	Mirror mir;
	uint64_t plan_hash = 0;
	bool nontrivial = false;
	std::map<std::string, uint64_t> fired_seen;
	std::vector<size_t> lost;          // blocks already reported as abandoned (sorted)
	Env(RunCtx &c, Ledger &l) : ctx(c), L(l) { mir.attach(l); }

	void state(const std::string &cls, const std::string &op, const std::string &fault, const std::string &outcome) {
		ctx.seen("states", fnv1a(cls + "|" + op + "|" + fault + "|" + outcome));
	}
	// injected disk faults that really fired since the last call -> "fault:<on>_<err>"
	bool note_disk_faults() {
		bool any = false;
		for (auto &kv : disk::fired()) {
			uint64_t &seen = fired_seen[kv.first];
			if (kv.second > seen) {
				std::string k = kv.first;
				for (auto &c : k) if (c == ':') c = '_';
				ctx.count("fault:" + k, (int64_t)(kv.second - seen));
				ctx.log.ev("fault fired %s x%llu", k.c_str(), (unsigned long long)(kv.second - seen));
				seen = kv.second;
				any = true; nontrivial = true;
			}
		}
		return any;
	}
	void add_lost(const std::vector<size_t> &extra) {
		lost.insert(lost.end(), extra.begin(), extra.end());
		std::sort(lost.begin(), lost.end());
	}
	void finish() {
		if (nontrivial) ctx.seen("nontrivial", plan_hash);
		const auto &c = L.counters();
		ctx.count("alloc:allocs", (int64_t)c.allocs);
		ctx.count("steps", (int64_t)(c.allocs + c.frees));
		if (ctx.stats) ctx.stats->max("alloc_peak_bytes", (int64_t)L.peak_bytes());
	}
};

// Ownership oracle: live allocator blocks == what the live objects own
// according to their models (+ blocks already reported lost). Period arrays
// cannot be observed through a safe getter, so for objects whose model does not
// know yet both possibilities are tried and the matching one is learnt.
struct Ownership { bool ok = true; std::vector<size_t> extra, missing; };
Ownership check_ownership(Env &env, const std::vector<Box *> &boxes) {
	Ownership r;
	std::vector<size_t> actual = env.mir.sizes();
	std::vector<Box *> unknown;
	std::vector<size_t> base = env.lost;
	for (Box *b : boxes) {
		if (!b->live) continue;
		bool wp = b->m.populated && b->m.periods == 1;
		std::vector<size_t> e = b->m.expected_blocks(wp);
		base.insert(base.end(), e.begin(), e.end());
		if (b->m.populated && b->m.periods < 0) unknown.push_back(b);
	}
	size_t best = (size_t)-1;
	unsigned best_mask = 0;
	for (unsigned mask = 0; mask < (1u << unknown.size()); mask++) {
		std::vector<size_t> e = base;
		for (size_t k = 0; k < unknown.size(); k++) if (mask >> k & 1) e.push_back(8 * (size_t)unknown[k]->m.ndim);
		std::sort(e.begin(), e.end());
		std::vector<size_t> ex, mi;
		multiset_diff(actual, e, ex, mi);
		if (ex.size() + mi.size() < best) { best = ex.size() + mi.size(); best_mask = mask; r.extra = ex; r.missing = mi; }
		if (best == 0) break;
	}
	r.ok = best == 0;
	// learn only what is unambiguous: two undecided objects of equal dimension
	// with different answers cannot be told apart by block sizes
	if (r.ok) for (size_t k = 0; k < unknown.size(); k++) {
		bool ambiguous = false;
		for (size_t j = 0; j < unknown.size(); j++)
			if (j != k && unknown[j]->m.ndim == unknown[k]->m.ndim && ((best_mask >> j & 1) != (best_mask >> k & 1))) ambiguous = true;
		// a lost block of the same size as a period array makes the answer ambiguous too
		if (std::find(env.lost.begin(), env.lost.end(), 8 * (size_t)unknown[k]->m.ndim) != env.lost.end()) ambiguous = true;
		if (!ambiguous) unknown[k]->m.periods = (best_mask >> k & 1) ? 1 : 0;
	}
	return r;
}

// The reader allocates an aux value block from the raw card text and strips
// the FITS quotes afterwards, so a value block that came from a file is up to
// 2 bytes longer than strlen(value)+1 (and is later released under the shorter
// size: the ledger records that as size-mismatch). After a read the model
// learns the real block sizes from the ledger: everything the objects own
// except `target`'s value blocks is taken out of the live set, what remains
// must pair up, in sorted order, with target's values at a surplus of 0..2.
bool learn_value_slack(Env &env, const std::vector<Box *> &boxes, Box &target) {
	std::vector<size_t> actual = env.mir.sizes();
	for (int wp = 0; wp < 2; wp++) {
		if (target.m.periods >= 0 && target.m.periods != wp) continue;
		std::vector<size_t> rest = env.lost;
		for (Box *b : boxes) {
			if (!b->live || b == &target) continue;
			std::vector<size_t> e = b->m.expected_blocks(b->m.populated && b->m.periods == 1);
			rest.insert(rest.end(), e.begin(), e.end());
		}
		std::vector<size_t> e = target.m.expected_blocks(wp == 1, false);
		rest.insert(rest.end(), e.begin(), e.end());
		std::sort(rest.begin(), rest.end());
		std::vector<size_t> extra, missing;
		multiset_diff(actual, rest, extra, missing);
		if (!missing.empty() || extra.size() < target.m.aux.size()) continue;
		std::vector<std::pair<size_t, size_t>> want;   // (strlen+1, entry index)
		for (size_t i = 0; i < target.m.aux.size(); i++) want.emplace_back(target.m.aux[i].second.size() + 1, i);
		std::sort(want.begin(), want.end());
		// ascending values take the smallest remaining block that fits (whatever is left over is
		// storage nobody owns: the ownership check reports it)
		std::vector<size_t> pool = extra, got(want.size(), 0);
		bool ok = true;
		for (size_t i = 0; i < want.size() && ok; i++) {
			auto it = std::lower_bound(pool.begin(), pool.end(), want[i].first);
			if (it == pool.end() || *it > want[i].first + 2) ok = false;
			else { got[i] = *it; pool.erase(it); }
		}
		if (!ok) continue;
		uint64_t n = 0;
		for (size_t i = 0; i < want.size(); i++) { target.m.set_slack(want[i].second, (int)(got[i] - want[i].first)); if (got[i] != want[i].first) n++; }
		if (n) env.ctx.count("probe:value_block_longer_than_string", (int64_t)n);
		if (n && getenv("PSV_HIST_DEBUG")) fprintf(stderr, "SLACK actual %s rest %s extra %s\n", sizes_str(actual, 40).c_str(), sizes_str(rest, 40).c_str(), sizes_str(extra, 40).c_str());
		if (n && getenv("PSV_HIST_DEBUG")) for (size_t i = 0; i < want.size(); i++) if (got[i] != want[i].first) fprintf(stderr, "SLACK run %lld key '%s' value '%s' block %zu\n", (long long)env.ctx.run, target.m.aux[want[i].second].first.c_str(), target.m.aux[want[i].second].second.c_str(), got[i]);
		return true;
	}
	return false;
}

// ---------------------------------------------------------------- input tables and damaged images
struct Inputs {
	std::vector<TableSpec> specs;
	std::vector<Bytes> images;
	bool load(const Json &tables, std::string &err) {
		for (auto &tj : tables.a) {
			TableDesc d;
			if (!TableDesc::from_json(tj, d, err)) return false;
			specs.push_back(realize(d));
			images.push_back(encode_fits(specs.back()));
		}
		return true;
	}
};
// source of a read: {"t": index of an input table, "damage": corruption op | absent, "missing": true}
// -> class token for signatures / statistics
std::string source_class(const Json &src) {
	if (src.getb("missing")) return "missing";
	if (src.has("damage")) { std::string c = corruption_class(src["damage"]); return c == "foreign" ? "foreign" : "corrupt"; }
	return "none";
}
bool source_image(const Inputs &in, const Json &src, Bytes &img) {
	if (in.images.empty()) return false;
	img = in.images[(size_t)((uint64_t)src.geti("t") % in.images.size())];
	if (src.has("damage")) { std::string note; apply_corruption(img, src["damage"], note); }
	return true;
}
Json gen_source(Rng &g, size_t ntables, bool allow_missing, double p_bad) {
	Json s = Json::object();
	s["t"] = Json((long long)g.below(ntables ? ntables : 1));
	if (!g.chance(p_bad)) return s;
	int w = (int)g.below(100);
	if (allow_missing && w < 25) { s["missing"] = Json(true); return s; }
	Json d = Json::object();
	if (w < 60) { d["c"] = Json("truncate"); d["len"] = Json((long long)g.below(1 << 20)); }
	else if (w < 72) { d["c"] = Json("zero_block"); d["blk"] = Json((long long)g.below(64)); }
	else if (w < 80) { d["c"] = Json("drop_ext"); d["hdu"] = Json((long long)(1 + g.below(6))); }
	else { d["c"] = Json("foreign"); d["kind"] = Json(g.pick(foreign_kinds())); d["seed"] = Json((long long)(g.next() >> 20)); }
	s["damage"] = d;
	return s;
}

// Damaged images can send the reader itself into undefined behaviour (cfitsio's
// memory driver fetches whole 2880-byte records past the end of a short buffer;
// crafted headers overflow cfitsio buffers): that is C07's subject. Histories
// only use damaged images on which the reader survives, established in a child.
bool reader_survives(const Bytes &img, bool mem) {
	std::string key = std::string(mem ? "readmem:" : "readdisk:") + hex64(img.empty() ? 0 : fnv1a(img.data(), img.size())) + ":" + std::to_string(img.size());
	std::string how = dies_in_child_cached(key, [&]() {
		Ledger l2; Ledger::Scope sc2(l2);
		alignas(Tab) static unsigned char raw[sizeof(Tab)];
		Tab *t = new (raw) Tab(SimAlloc<void>(0));
		if (mem) { Bytes copy = img; unsigned char dummy = 0; t->read_fits_mem(copy.empty() ? (void *)&dummy : (void *)copy.data(), copy.size()); }
		else { disk::put("/sim/probe.fits", img); t->read_fits("/sim/probe.fits"); }
	});
	return how.empty();
}

// ---------------------------------------------------------------- small fit problems
struct FitProblem {
	uint32_t ndim = 1;
	std::vector<uint32_t> order, porder;
	std::vector<std::vector<double>> knots, coords;
	std::vector<double> smoothing, values, weights;
	std::vector<std::vector<unsigned>> idx;   // [dim][row]
	std::vector<unsigned> ranges;
	uint32_t monodim = Tab::no_monodim;
	std::string bad;   // "" | weights | unsorted_knots | monodim | ranges | coords | orders
};
Json gen_fit(Rng &g, bool allow_bad) {
	Json f = Json::object();
	int nd = g.chance(0.7) ? 1 : 2;
	f["ndim"] = Json(nd);
	Json o = Json::array(), nc = Json::array(), np = Json::array();
	for (int i = 0; i < nd; i++) {
		int ord = (int)g.range(1, 3);
		int ncoef = (int)g.range(ord + 2, nd == 1 ? 8 : 5);
		o.push(Json(ord)); nc.push(Json(ncoef)); np.push(Json((int)g.range(ncoef + 1, ncoef + 4)));
	}
	f["order"] = o; f["ncoef"] = nc; f["npts"] = np;
	f["pseed"] = Json(hex64(g.next()));
	f["smooth"] = Json(g.chance(0.5) ? 0.0 : 0.1);
	f["monodim"] = Json(g.chance(0.25) ? (int)g.below((uint64_t)nd) : -1);
	static const char *bads[] = {"weights", "unsorted_knots", "monodim", "ranges", "coords", "orders"};
	f["bad"] = Json(allow_bad && g.chance(0.3) ? bads[g.below(6)] : "");
	return f;
}
FitProblem make_fit(const Json &d) {
	FitProblem p;
	Rng r((uint64_t)strtoull(d.gets("pseed", "1").c_str(), nullptr, 16), "fit");
	p.ndim = (uint32_t)std::max<int64_t>(1, std::min<int64_t>(3, d.geti("ndim", 1)));
	p.bad = d.gets("bad");
	int64_t md = d.geti("monodim", -1);
	p.monodim = md < 0 ? Tab::no_monodim : (uint32_t)md % p.ndim;
	for (uint32_t i = 0; i < p.ndim; i++) {
		uint32_t ord = (uint32_t)std::max<int64_t>(1, std::min<int64_t>(3, d["order"].size() > i ? d["order"][i].integer() : 2));
		int nc = (int)std::max<int64_t>(ord + 2, std::min<int64_t>(10, d["ncoef"].size() > i ? d["ncoef"][i].integer() : 5));
		int np = (int)std::max<int64_t>(nc + 1, std::min<int64_t>(16, d["npts"].size() > i ? d["npts"][i].integer() : nc + 2));
		p.order.push_back(ord);
		p.porder.push_back(std::min<uint32_t>(2, ord));   // penalty order <= spline order (glam.c precondition)
		int nk = nc + (int)ord + 1;
		std::vector<double> k((size_t)nk);
		for (int j = 0; j < nk; j++) k[(size_t)j] = ((double)j - (double)ord) / (double)(nc - (int)ord);
		p.knots.push_back(k);
		std::vector<double> c((size_t)np);
		for (int j = 0; j < np; j++) c[(size_t)j] = (double)j / (np - 1) * 0.98 + 0.01;
		p.coords.push_back(c);
		p.ranges.push_back((unsigned)np);
	}
	p.smoothing.assign(1, d.getd("smooth", 0.1));
	size_t total = 1;
	for (auto &c : p.coords) total *= c.size();
	p.idx.assign(p.ndim, {});
	std::vector<unsigned> ix(p.ndim, 0);
	for (size_t row = 0; row < total; row++) {
		size_t rem = row;
		for (int dd = (int)p.ndim - 1; dd >= 0; dd--) { ix[(size_t)dd] = (unsigned)(rem % p.coords[(size_t)dd].size()); rem /= p.coords[(size_t)dd].size(); }
		double v = 1.0;
		for (uint32_t dd = 0; dd < p.ndim; dd++) v += (dd + 1) * p.coords[dd][ix[dd]] + 0.3 * std::sin(5 * p.coords[dd][ix[dd]]);
		v += 0.05 * r.normal();
		for (uint32_t dd = 0; dd < p.ndim; dd++) p.idx[dd].push_back(ix[dd]);
		p.values.push_back(v);
		p.weights.push_back(1.0 + 0.5 * r.unit());
	}
	// invalid-argument variants (each is refused by fit's own sanity checks)
	if (p.bad == "weights") p.weights.pop_back();
	else if (p.bad == "unsorted_knots") std::swap(p.knots[0][1], p.knots[0][p.knots[0].size() - 2]);
	else if (p.bad == "monodim") p.monodim = p.ndim + 1;
	else if (p.bad == "ranges") p.ranges[0] = p.ranges[0] - 1;       // an index equals the range
	else if (p.bad == "coords") p.coords.pop_back();
	else if (p.bad == "orders") p.order.push_back(2);
	return p;
}
struct NdData {
	::ndsparse d;
	bool ok;
	explicit NdData(const FitProblem &p) {
		ok = ndsparse_allocate(&d, p.values.size(), p.ndim) == 0;
		if (!ok) return;
		for (size_t row = 0; row < p.values.size(); row++) {
			d.x[row] = p.values[row];
			for (uint32_t dd = 0; dd < p.ndim; dd++) d.i[dd][row] = p.idx[dd][row];
		}
		for (uint32_t dd = 0; dd < p.ndim; dd++) d.ranges[dd] = p.ranges[dd];
	}
	~NdData() { if (ok) ndsparse_free(&d); }
	NdData(const NdData &) = delete;
};

// ---------------------------------------------------------------- evaluation points
// Points inside the fully supported region [k[order], k[nknots-order-1]) of
// every dimension: there the result depends on real knots and coefficients
// only, never on the padding slots around the knot vectors.
bool eval_point(const TableModel &m, Rng &r, std::vector<double> &x) {
	x.assign(m.ndim, 0.0);
	for (uint32_t d = 0; d < m.ndim; d++) {
		const auto &k = m.knots[d];
		double lo = k[m.order[d]], hi = k[k.size() - m.order[d] - 1];
		if (!(hi > lo)) return false;
		double u = r.unit();
		if (r.chance(0.15)) { size_t j = m.order[d] + (size_t)r.below((uint64_t)(k.size() - 2 * m.order[d] - 1)); x[d] = k[j]; }
		else x[d] = lo + (hi - lo) * u;
		if (!(x[d] >= lo && x[d] < hi)) x[d] = lo + (hi - lo) * 0.5;
	}
	return true;
}
bool centres_in_range(const TableModel &m, const int *c) {
	for (uint32_t d = 0; d < m.ndim; d++) if (c[d] < (int)m.order[d] || c[d] > (int)m.naxes[d] - 1) return false;
	return true;
}

// symmetric, sorted, distinct kernel knots around 0
std::vector<double> kernel_knots(int n, double width) {
	std::vector<double> k((size_t)n);
	for (int j = 0; j < n; j++) k[(size_t)j] = n == 1 ? 0.0 : width * (2.0 * j / (n - 1) - 1.0);
	return k;
}

disk::Config config_from(const Json &j) {
	disk::Config c;
	c.bufsize = j.geti("bufsize", -1);
	c.chunk_seed = (uint64_t)j.geti("chunk_seed", 0);
	c.short_write_permille = (int)j.geti("short_write_permille", 0);
	c.short_read_permille = (int)j.geti("short_read_permille", 0);
	c.max_chunk = (uint64_t)j.geti("max_chunk", 0);
	return c;
}
Json gen_config(Rng &knob) {
	Json c = Json::object();
	static const int64_t bufs[] = {-1, -1, -1, 0, 512, 2880, 4096, 8192, 65536};
	c["bufsize"] = Json((long long)bufs[knob.below(9)]);
	if (knob.chance(0.25)) {
		c["chunk_seed"] = Json((long long)(knob.next() >> 24));
		c["short_read_permille"] = Json((int)knob.below(300));
		c["short_write_permille"] = Json((int)knob.below(300));
	}
	return c;
}

} // namespace

#include "psv_hist_c20.inc"
#include "psv_hist_c16.inc"
#include "psv_hist_c19.inc"
#include "psv_hist_c18.inc"

namespace {

// ---------------------------------------------------------------- the harness
struct HistHarness : Harness {
	const char *name() const override { return "psv_hist"; }
	bool serves(const std::string &p) const override { return p == "C16" || p == "C18" || p == "C19" || p == "C20"; }
	// histories take milliseconds; C19 tables and C20 enumerations up to seconds
	unsigned watchdog_s(const std::string &p, const std::string &tier) const override { return (p == "C19" || tier == "thorough") ? 300 : 90; }
	void init() override { c18_warm_up(); }

	Json generate(const std::string &prop, uint64_t runseed, const std::string &tier) override {
		if (prop == "C20") return gen_c20(runseed, tier);
		if (prop == "C16") return gen_c16(runseed, tier);
		if (prop == "C19") return gen_c19(runseed, tier);
		return gen_c18(runseed, tier);
	}
	void execute(const Json &plan, RunCtx &ctx) override {
		std::string prop = plan.gets("prop", ctx.prop);
		uint64_t ph = hash_json(plan);
		const char *tr = getenv("PSV_HIST_TRACE");   // debugging aid: event log of one run index to stderr
		bool dump = tr && ctx.run == atoll(tr);
		if (dump) ctx.log.keep = true;
		g_deferred.clear();
		ctx.log.ev("run %s plan=%016llx", prop.c_str(), (unsigned long long)ph);
		if (prop == "C20") exec_c20(plan, ctx, ph);
		else if (prop == "C16") exec_c16(plan, ctx, ph);
		else if (prop == "C19") exec_c19(plan, ctx, ph);
		else if (prop == "C18") exec_c18(plan, ctx, ph);
		else ctx.violate(prop + "|setup|plan|none|unknown-property", "plan names a property this harness does not serve");
		flush_deferred(ctx);
		if (dump) for (auto &l : ctx.log.lines) fprintf(stderr, "TRACE %s\n", l.c_str());
		disk::reset();
	}
	std::vector<Json> simplify(const Json &plan, const Json &aux) override {
		std::vector<Json> out;
		std::string prop = plan.gets("prop");
		// 1. an enumeration that found something -> the one explicit fault that did
		if (prop == "C20" && plan.getb("enumerate") && aux.has("fault_op")) {
			Json c = plan;
			c["enumerate"] = Json(false);
			for (auto &op : c["ops"].a) op.erase("fault");
			size_t i = (size_t)aux.geti("fault_op");
			if (i < c["ops"].size()) { c["ops"].a[i]["fault"] = aux["fault"]; out.push_back(c); }
		}
		if (prop == "C20" && plan.getb("enumerate") && !aux.has("fault_op")) { Json c = plan; c["enumerate"] = Json(false); out.push_back(c); }
		// 2. drop injected faults one by one
		if (plan.has("ops")) for (size_t i = 0; i < plan["ops"].size(); i++) {
			const Json &op = plan["ops"].a[i];
			if (op.has("fault")) { Json c = plan; c["ops"].a[i].erase("fault"); out.push_back(c); }
			if (op.has("nfault")) { Json c = plan; c["ops"].a[i].erase("nfault"); out.push_back(c); if (op["nfault"].geti("at") > 0) { Json c2 = plan; c2["ops"].a[i]["nfault"]["at"] = Json(0); out.push_back(c2); } }
			if (op.has("src") && op["src"].has("damage") && op["src"]["damage"].gets("c") != "truncate") {
				Json c = plan; Json d = Json::object(); d["c"] = Json("truncate"); d["len"] = Json(100); c["ops"].a[i]["src"]["damage"] = d; out.push_back(c);
			}
			if (op.has("points") && op.geti("points") > 1) { Json c = plan; c["ops"].a[i]["points"] = Json(1); out.push_back(c); }
		}
		// 3. simpler tables
		auto simpler_tables = [&](const char *key) {
			if (!plan.has(key)) return;
			const Json &tj = plan[key];
			if (tj.is_arr()) {
				for (size_t k = 0; k < tj.size(); k++) {
					TableDesc d; std::string err;
					if (!TableDesc::from_json(tj.a[k], d, err)) continue;
					for (auto &s : simplify_desc(d)) { Json c = plan; c[key].a[k] = s.to_json(); out.push_back(c); }
				}
			} else if (tj.is_obj()) {
				TableDesc d; std::string err;
				if (TableDesc::from_json(tj, d, err)) for (auto &s : simplify_desc(d)) { Json c = plan; c[key] = s.to_json(); out.push_back(c); }
			}
		};
		simpler_tables("tables");
		simpler_tables("table");
		// 4. fewer objects / handles, plainer I/O configuration
		for (const char *k : {"nslots", "nh"}) if (plan.geti(k) > 1) { Json c = plan; c[k] = Json((long long)plan.geti(k) - 1); out.push_back(c); }
		if (plan.has("config")) {
			const Json &cf = plan["config"];
			if (cf.geti("short_write_permille") || cf.geti("short_read_permille")) { Json c = plan; c["config"]["short_write_permille"] = Json(0); c["config"]["short_read_permille"] = Json(0); out.push_back(c); }
			if (cf.geti("bufsize", -1) != -1) { Json c = plan; c["config"]["bufsize"] = Json(-1); out.push_back(c); }
		}
		return out;
	}
};

} // namespace

int main(int argc, char **argv) {
	// thread pools of dependencies off, one line-search worker: the fitter reads
	// these at call time, OpenBLAS at load time (hence the re-exec)
	const char *ob = getenv("OPENBLAS_NUM_THREADS");
	if (!ob || strcmp(ob, "1") != 0 || !getenv("GOTO_NUM_THREADS") || strcmp(getenv("GOTO_NUM_THREADS"), "1") != 0) {
		setenv("OPENBLAS_NUM_THREADS", "1", 1);
		setenv("OMP_NUM_THREADS", "1", 1);
		setenv("GOTO_NUM_THREADS", "1", 1);
		if (!getenv("PSV_HIST_REEXEC")) {
			setenv("PSV_HIST_REEXEC", "1", 1);
			execv("/proc/self/exe", argv);
		}
	}
	HistHarness h;
	return harness_main(argc, argv, h);
}
