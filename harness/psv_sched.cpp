// psv_sched: the repository's threaded line search (walk_descents /
// evaluate_descent), the NNLS solvers and whole monotonic fits, executed on
// cooperative fibers under the seeded scheduler of sim/sched.cpp.
// Serves C12 (schedules), C11 (solver optimum under every schedule), C10
// (monotonicity of whole fits under every schedule).
#include "sim/harness.h"
#include "sim/sched.h"
#include <algorithm>
#include <cassert>
#include <cfloat>
#include <cmath>
#include <cstring>
#include <memory>
#include <numeric>

#include "photospline/splinetable.h"
extern "C" {
#include "cholesky_solve.h"
int __real_walk_descents(cholmod_sparse *, cholmod_dense *, cholmod_dense *, cholmod_dense *, long *, long *, long *,
                         long *, double *, int *, int, cholmod_common *);
cholmod_dense *__real_cholmod_l_allocate_dense(size_t, size_t, size_t, int, cholmod_common *);
cholmod_dense *__real_cholmod_l_copy_dense(cholmod_dense *, cholmod_common *);
int __real_cholmod_l_sdmult(cholmod_sparse *, int, double *, double *, cholmod_dense *, cholmod_dense *, cholmod_common *);
int __real_cholmod_l_free_dense(cholmod_dense **, cholmod_common *);
int __real_cholmod_l_start(cholmod_common *);
// weak: the iteration counters must not break the build if a refactoring makes these internal functions static
int __real_cholmod_l_reallocate_column(size_t j, size_t need, cholmod_factor *L, cholmod_common *c);
cholmod_factor *__real_modify_factor(cholmod_sparse *, cholmod_factor *, long *, long *, long *, long *, long *, long *, long *, long *, int, cholmod_common *) __attribute__((weak));
cholmod_dense *__real_cholesky_solve(cholmod_sparse *, cholmod_dense *, cholmod_common *, int, int) __attribute__((weak));
cholmod_dense *__real_SuiteSparseQR_C_backslash_default(cholmod_sparse *, cholmod_dense *, cholmod_common *);
void *__real_malloc(size_t);
void *__real_calloc(size_t, size_t);
void *__real_realloc(void *, size_t);
void __real_free(void *);
extern uint64_t psv_refblas_calls;
extern int psv_env_threads, psv_affinity_fails, psv_ncpus, psv_env_form, psv_env_style, psv_env_other;
}

using namespace psv;

namespace {

struct Global {
	RunCtx *ctx = nullptr;
	bool canonical_only = false;  // execute every line search under the canonical schedule only (reference solves)
	bool depth_direct = false;
	bool one_worker_first = false;   // order of the reference executions of a line search (history of worker counts within the process)
	bool compare = true;          // refinement check at every wrapped line search
	int workers = 1;
	int64_t line_searches = 0;
	int64_t max_blocks = 0;
	cholmod_common cref;          // the reference model's private CHOLMOD state
	bool cref_started = false;
	std::string prop;
	// iteration counters of the plain solvers (so that "gave up at its iteration cap" is visible)
	int64_t n_modify_factor = 0, n_cholesky_solve = 0, n_qr = 0, qr_cap = 0;
};
Global G;

uint64_t bits(double v) { uint64_t u; memcpy(&u, &v, 8); return u; }
bool same_bits(double a, double b) { return bits(a) == bits(b) || (std::isnan(a) && std::isnan(b)); }

// ---------------------------------------------------------------- CHOLMOD helpers
// shuffles the entries within every column of a sparse matrix and marks it unsorted (a legal CHOLMOD matrix)
void shuffle_columns(cholmod_sparse *S, uint64_t seed) {
	Rng r(seed, "column_order");
	long *p = (long *)S->p, *i = (long *)S->i; double *x = (double *)S->x;
	for (size_t col = 0; col < S->ncol; col++) {
		long a = p[col], b = p[col + 1];
		for (long k = b - a; k > 1; k--) { long j = (long)r.below((uint64_t)k); std::swap(i[a + k - 1], i[a + j]); std::swap(x[a + k - 1], x[a + j]); }
	}
	S->sorted = 0;
}
cholmod_sparse *dense_to_sparse_full(const std::vector<double> &A, int n, cholmod_common *c, bool keep_zeros = false) {
	size_t nz = 0;
	for (double v : A) if (v != 0 || keep_zeros) nz++;
	cholmod_sparse *S = cholmod_l_allocate_sparse((size_t)n, (size_t)n, nz ? nz : 1, 1, 1, 0, CHOLMOD_REAL, c);
	long *p = (long *)S->p, *i = (long *)S->i; double *x = (double *)S->x;
	size_t k = 0;
	for (int col = 0; col < n; col++) {
		p[col] = (long)k;
		for (int row = 0; row < n; row++) {
			double v = A[(size_t)row * (size_t)n + (size_t)col];
			if (v != 0 || keep_zeros) { i[k] = row; x[k] = v; k++; }
		}
	}
	p[n] = (long)k;
	return S;
}
cholmod_sparse *rect_to_sparse(const std::vector<double> &M, int m, int n, cholmod_common *c) {
	size_t nz = 0;
	for (double v : M) if (v != 0) nz++;
	cholmod_sparse *S = cholmod_l_allocate_sparse((size_t)m, (size_t)n, nz ? nz : 1, 1, 1, 0, CHOLMOD_REAL, c);
	long *p = (long *)S->p, *i = (long *)S->i; double *x = (double *)S->x;
	size_t k = 0;
	for (int col = 0; col < n; col++) {
		p[col] = (long)k;
		for (int row = 0; row < m; row++) {
			double v = M[(size_t)row * (size_t)n + (size_t)col];
			if (v != 0) { i[k] = row; x[k] = v; k++; }
		}
	}
	p[n] = (long)k;
	return S;
}
cholmod_dense *vec_to_dense(const std::vector<double> &v, cholmod_common *c) {
	cholmod_dense *d = __real_cholmod_l_allocate_dense(v.size(), 1, v.size(), CHOLMOD_REAL, c);
	for (size_t k = 0; k < v.size(); k++) ((double *)d->x)[k] = v[k];
	return d;
}

// ---------------------------------------------------------------- sequential reference model of the line search
struct RefOut {
	int ret = 0;
	std::vector<double> x;      // full x after the call
	std::vector<long> H1;
	double residual = 0; bool residual_set = false;
	int blocks = 0, n_alpha = 0, chosen = -1;
};

RefOut walk_descents_ref(cholmod_sparse *AtA_F, cholmod_dense *Atb_F, const cholmod_dense *x, const cholmod_dense *x_F,
                         const long *F, long nF, int n_threads, cholmod_common *c) {
	RefOut o;
	const double *xv = (const double *)x->x, *xf = (const double *)x_F->x;
	o.x.assign(xv, xv + x->nrow);
	std::vector<double> alpha;
	alpha.push_back(0); alpha.push_back(1);
	for (long i = 0; i < nF; i++)
		if (xf[i] < 0) {
			double a = xv[F[i]] / (xv[F[i]] - xf[i]);
			if (a < 1 && a > 0) alpha.push_back(a);
		}
	std::sort(alpha.begin() + 2, alpha.end(), [](double a, double b) { return a > b; });
	int n_alpha = (int)alpha.size();
	o.n_alpha = n_alpha;
	double res = NAN;
	cholmod_dense *xc = __real_cholmod_l_allocate_dense((size_t)nF, 1, (size_t)nF, CHOLMOD_REAL, c);
	bool success = false;
	for (int idx = 0; idx < n_alpha && !success; idx++) {
		if (idx % n_threads == 0) o.blocks++;
		std::vector<long> h1;
		for (long i = 0; i < nF; i++) {
			double v = (1.0 - alpha[(size_t)idx]) * xv[F[i]] + alpha[(size_t)idx] * xf[i];
			if (v < 0.0) { v = 0.0; h1.push_back(F[i]); }
			((double *)xc->x)[i] = v;
		}
		double r = calc_residual(AtA_F, Atb_F, xc, c);
		if (idx == 0) { res = r; continue; }
		if (r < res || idx == n_alpha - 1) {
			success = true;
			o.chosen = idx;
			for (long k = 0; k < nF; k++) o.x[(size_t)F[k]] = ((double *)xc->x)[k];
			o.H1 = h1;
			if (r < res) { o.ret = 1; o.residual = r; o.residual_set = true; }
			else o.ret = 0;
		}
	}
	__real_cholmod_l_free_dense(&xc, c);
	return o;
}

} // namespace

namespace {
// outputs of one execution of the line search
struct LsOut {
	int ret = 0; long nF = 0, nH1 = 0; double residual = 0; int calcs = 0;
	std::vector<double> x; std::vector<long> H1;
	int64_t steps = 0;
};

// The real walk_descents on private copies of everything it writes, inside a canonical section of the
// scheduler ("newest enabled fiber first": every worker runs to its next blocking point as soon as it is
// created or woken) and with `workers` worker threads. This is the reference the explored execution is
// compared with: the SAME code, one fixed schedule.
LsOut canonical_line_search(cholmod_sparse *AtA_F, cholmod_dense *Atb_F, cholmod_dense *x, cholmod_dense *x_F, const long *F, long nF,
                            long nH1_in, double residual_in, int calcs_in, cholmod_common *c, int workers) {
	LsOut o;
	size_t nvar = x->nrow;
	cholmod_dense xc = *x;                                  // shallow header copy, private value array
	std::vector<double> xv((double *)x->x, (double *)x->x + x->nzmax);
	xc.x = xv.data();
	std::vector<long> Fc(F, F + nF), H1c(nvar + 2, -1);
	o.nF = nF; o.nH1 = nH1_in; o.residual = residual_in; o.calcs = calcs_in;
	int save = psv_env_threads; psv_env_threads = workers;
	int64_t s0 = Sched::steps();
	Sched::begin_canonical();
	o.ret = __real_walk_descents(AtA_F, Atb_F, &xc, x_F, Fc.data(), &o.nF, H1c.data(), &o.nH1, &o.residual, &o.calcs, 0, c);
	Sched::end_canonical();
	o.steps = Sched::steps() - s0;
	psv_env_threads = save;
	o.x = xv;
	if (o.nH1 < 0) o.nH1 = 0;
	if ((size_t)o.nH1 > H1c.size()) o.nH1 = (long)H1c.size();
	o.H1.assign(H1c.begin(), H1c.begin() + o.nH1);
	return o;
}
} // namespace

extern "C" int __wrap_walk_descents(cholmod_sparse *AtA_F, cholmod_dense *Atb_F, cholmod_dense *x, cholmod_dense *x_F,
                                    long *F, long *nF_, long *H1, long *nH1_, double *residual, int *residual_calcs,
                                    int verbose, cholmod_common *c) {
	if (!G.ctx || !Sched::active())
		return __real_walk_descents(AtA_F, Atb_F, x, x_F, F, nF_, H1, nH1_, residual, residual_calcs, verbose, c);
	RunCtx &ctx = *G.ctx;
	if (!G.cref_started) { cholmod_l_start(&G.cref); G.cref_started = true; }
	long nF = *nF_;
	int n_threads = get_nthreads();
	double residual_in = *residual;
	int calcs_in = *residual_calcs;
	long nH1_in = *nH1_;
	G.line_searches++;
	ctx.count("line_searches");
	// bounded liveness of the caller: BLOCK3 makes at most 120 outer iterations with at most nvar inner
	// steps each; a solve that asks for far more line searches than that is not making progress
	if (G.line_searches > 500 + 130LL * (int64_t)x->nrow) Sched::abandon("line_search_count");
	if (G.canonical_only) {
		// reference mode for whole solves / fits: the real code, canonical schedule, on the real arguments
		Sched::begin_canonical();
		int r = __real_walk_descents(AtA_F, Atb_F, x, x_F, F, nF_, H1, nH1_, residual, residual_calcs, verbose, c);
		Sched::end_canonical();
		return r;
	}
	// statistics from a sequential re-statement of the current algorithm (never a verdict: a legitimate
	// change of the step rule must not raise an alarm; agreement is reported as a probe)
	RefOut ref = walk_descents_ref(AtA_F, Atb_F, x, x_F, F, nF, n_threads, &G.cref);
	if (ref.blocks > G.max_blocks) G.max_blocks = ref.blocks;
	ctx.count("trial_steps", ref.n_alpha);
	if (ref.blocks >= 2) ctx.count("probe:multi_block_search");
	if (ref.blocks >= 3) ctx.count("probe:three_or_more_blocks");
	if (n_threads > ref.n_alpha) ctx.count("probe:more_workers_than_trial_steps");
	if (ref.chosen == ref.n_alpha - 1 && !ref.ret) ctx.count("probe:no_step_reduced_residual");

	// 1. reference executions of the same code: canonical schedule, same worker count; and one worker
	ctx.crumb("walk_descents(canonical)|workers=%d", n_threads);
	// (the order of the two is a knob of the plan: the calls of one process form a history, and a line search
	// with few workers followed by one with many is a different history from the reverse)
	bool do_one = n_threads != 1 && (G.depth_direct || (G.line_searches % 4) == 1);
	LsOut one, can;
	if (do_one && G.one_worker_first) one = canonical_line_search(AtA_F, Atb_F, x, x_F, F, nF, nH1_in, residual_in, calcs_in, c, 1);
	can = canonical_line_search(AtA_F, Atb_F, x, x_F, F, nF, nH1_in, residual_in, calcs_in, c, n_threads);
	if (do_one && !G.one_worker_first) one = canonical_line_search(AtA_F, Atb_F, x, x_F, F, nF, nH1_in, residual_in, calcs_in, c, 1);

	// 2. the explored execution, on the real arguments, under the plan's schedule
	ctx.crumb("walk_descents|workers=%d", n_threads);
	// bounded liveness in logical steps, relative to what the same call needed under the canonical schedule
	int64_t bound = 8 * can.steps + 64LL * n_threads + 256;
	Sched::begin_call_budget(bound, "walk_descents");
	int ret = __real_walk_descents(AtA_F, Atb_F, x, x_F, F, nF_, H1, nH1_, residual, residual_calcs, verbose, c);
	int64_t used = Sched::end_call_budget();
	ctx.log.ev("walk_descents n_alpha=%d blocks=%d workers=%d ret=%d steps=%lld canonical_steps=%lld", ref.n_alpha, ref.blocks, n_threads, ret,
	           (long long)used, (long long)can.steps);

	auto differs = [&](const LsOut &r, bool with_calcs) -> const char * {
		if (ret != r.ret) return "return_value";
		if (*nF_ != r.nF) return "nF";
		for (size_t k = 0; k < r.x.size() && k < x->nzmax; k++) if (!same_bits(((double *)x->x)[k], r.x[k])) return "x";
		if (*nH1_ != r.nH1) return "nH1";
		for (long k = 0; k < r.nH1; k++) if (H1[k] != r.H1[(size_t)k]) return "H1";
		if (!same_bits(*residual, r.residual)) return "residual";
		if (with_calcs && *residual_calcs != r.calcs) return "residual_calcs";
		return nullptr;
	};
	const char *bad = differs(can, true);
	if (bad) {
		char d[360];
		snprintf(d, sizeof d, "line search #%lld (n_alpha=%d, workers=%d): under the explored schedule ret=%d nH1=%ld residual=%a calcs=%d; the same code under the canonical schedule ret=%d nH1=%ld residual=%a calcs=%d",
		         (long long)G.line_searches, ref.n_alpha, n_threads, ret, *nH1_, *residual, *residual_calcs, can.ret, can.nH1, can.residual, can.calcs);
		ctx.violate(std::string("C12|schedule_dependent_line_search|walk_descents|") + bad, d);
	} else if (do_one) {
		bad = differs(one, false);
		if (bad) {
			char d[360];
			snprintf(d, sizeof d, "line search #%lld (n_alpha=%d): with %d workers ret=%d nH1=%ld residual=%a; with 1 worker ret=%d nH1=%ld residual=%a",
			         (long long)G.line_searches, ref.n_alpha, n_threads, ret, *nH1_, *residual, one.ret, one.nH1, one.residual);
			ctx.violate(std::string("C12|worker_count_dependent_line_search|walk_descents|") + bad, d);
		}
		ctx.count("probe:line_search_compared_with_one_worker");
	}
	// agreement with the sequential re-statement (informational)
	{
		bool agree = ret == ref.ret && *nH1_ == nH1_in + (long)ref.H1.size();
		for (size_t k = 0; agree && k < ref.x.size(); k++) if (!same_bits(((double *)x->x)[k], ref.x[k])) agree = false;
		if (agree && ref.residual_set && !same_bits(*residual, ref.residual)) agree = false;
		ctx.count(agree ? "model:line_search_matches_sequential_restatement" : "model:line_search_differs_from_sequential_restatement");
	}
	return ret;
}

// ---------------------------------------------------------------- modelled accesses of CHOLMOD calls made by the threaded code
namespace {
struct CommonSnap { unsigned char b[sizeof(cholmod_common)]; };
void model_common(cholmod_common *c, const CommonSnap &pre, const char *who) {
	if (!Race::enabled() || Sched::current() < 0 || !c) return;
	const unsigned char *now = (const unsigned char *)c;
	size_t n = sizeof(cholmod_common), i = 0;
	bool any = false;
	while (i < n) {
		if (now[i] != pre.b[i]) {
			size_t j = i;
			while (j < n && now[j] != pre.b[j]) j++;
			// observed modification of the shared CHOLMOD state by this call: a write access
			Race::access(now + i, j - i, true, who);
			any = true;
			i = j;
		} else i++;
	}
	if (!any) Race::access(&c->status, sizeof c->status, false, who);
}
bool modelling() { return Race::enabled() && Sched::current() >= 0; }
}

extern "C" {
cholmod_dense *__wrap_cholmod_l_allocate_dense(size_t nrow, size_t ncol, size_t d, int xtype, cholmod_common *c) {
	if (!modelling()) return __real_cholmod_l_allocate_dense(nrow, ncol, d, xtype, c);
	CommonSnap pre; memcpy(pre.b, c, sizeof pre.b);
	Race::name_region(c, sizeof(cholmod_common), c == &G.cref ? "cholmod_common(model)" : "cholmod_common");
	cholmod_dense *r = __real_cholmod_l_allocate_dense(nrow, ncol, d, xtype, c);
	model_common(c, pre, "cholmod_l_allocate_dense");
	if (r && r->x) Race::region_alloc(r->x, r->nzmax * sizeof(double), "cholmod_dense");
	return r;
}
cholmod_dense *__wrap_cholmod_l_copy_dense(cholmod_dense *X, cholmod_common *c) {
	if (!modelling()) return __real_cholmod_l_copy_dense(X, c);
	CommonSnap pre; memcpy(pre.b, c, sizeof pre.b);
	Race::name_region(c, sizeof(cholmod_common), c == &G.cref ? "cholmod_common(model)" : "cholmod_common");
	if (X && X->x) Race::access(X->x, X->nzmax * sizeof(double), false, "cholmod_l_copy_dense(input)");
	cholmod_dense *r = __real_cholmod_l_copy_dense(X, c);
	model_common(c, pre, "cholmod_l_copy_dense");
	if (r && r->x) Race::region_alloc(r->x, r->nzmax * sizeof(double), "cholmod_dense");
	return r;
}
int __wrap_cholmod_l_sdmult(cholmod_sparse *A, int t, double *alpha, double *beta, cholmod_dense *X, cholmod_dense *Y, cholmod_common *c) {
	if (!modelling()) return __real_cholmod_l_sdmult(A, t, alpha, beta, X, Y, c);
	CommonSnap pre; memcpy(pre.b, c, sizeof pre.b);
	Race::name_region(c, sizeof(cholmod_common), c == &G.cref ? "cholmod_common(model)" : "cholmod_common");
	if (A && A->x) Race::access(A->x, A->nzmax * sizeof(double), false, "cholmod_l_sdmult(A)");
	if (X && X->x) Race::access(X->x, X->nzmax * sizeof(double), false, "cholmod_l_sdmult(X)");
	int r = __real_cholmod_l_sdmult(A, t, alpha, beta, X, Y, c);
	if (Y && Y->x) Race::access(Y->x, Y->nzmax * sizeof(double), true, "cholmod_l_sdmult(Y)");
	model_common(c, pre, "cholmod_l_sdmult");
	return r;
}
int __wrap_cholmod_l_free_dense(cholmod_dense **X, cholmod_common *c) {
	if (!modelling()) return __real_cholmod_l_free_dense(X, c);
	CommonSnap pre; memcpy(pre.b, c, sizeof pre.b);
	Race::name_region(c, sizeof(cholmod_common), c == &G.cref ? "cholmod_common(model)" : "cholmod_common");
	if (X && *X && (*X)->x) Race::region_free((*X)->x);
	int r = __real_cholmod_l_free_dense(X, c);
	model_common(c, pre, "cholmod_l_free_dense");
	return r;
}
// CHOLMOD picks between a simplicial factorisation (its own C loops) and a supernodal one (BLAS
// kernels) by a flop heuristic. OpenBLAS kernels round differently depending on buffer alignment,
// i.e. on heap history, which would make a run's floating-point results depend on what ran before
// it in the same process. Force the simplicial code so that every number is a function of the plan.
// (Since the fourth session the six BLAS/LAPACK routines CHOLMOD's supernodal code calls are the simulator's own
// plain loops, sim/refblas.cpp, so a supernodal factorisation is reproducible too. The mode is a knob of the
// plan: simplicial | auto (CHOLMOD's default: supernodal above 40 flops per entry of L) | supernodal.)
int psv_cholmod_mode = CHOLMOD_SIMPLICIAL;
int __wrap_cholmod_l_start(cholmod_common *c) {
	int r = __real_cholmod_l_start(c);
	c->supernodal = psv_cholmod_mode;
	return r;
}
cholmod_factor *__wrap_modify_factor(cholmod_sparse *A, cholmod_factor *L, long *F, long *nF, long *Gs, long *nG, long *H1, long *nH1,
                                     long *H2, long *nH2, int verbose, cholmod_common *c) {
	G.n_modify_factor++;
	return __real_modify_factor(A, L, F, nF, Gs, nG, H1, nH1, H2, nH2, verbose, c);
}
// reach probe: recompute_factor grows single columns of the factor; when the factor's storage is exhausted
// CHOLMOD moves its index and value arrays (pointers fetched earlier are then stale)
int __wrap_cholmod_l_reallocate_column(size_t j, size_t need, cholmod_factor *L, cholmod_common *c) {
	void *x0 = L ? L->x : nullptr, *i0 = L ? L->i : nullptr;
	int r = __real_cholmod_l_reallocate_column(j, need, L, c);
	if (G.ctx) { G.ctx->count("probe:factor_column_reallocated"); if (L && (L->x != x0 || L->i != i0)) G.ctx->count("probe:factor_storage_moved_by_column_growth"); }
	return r;
}
cholmod_dense *__wrap_cholesky_solve(cholmod_sparse *AtA, cholmod_dense *Atb, cholmod_common *c, int verbose, int n_resolves) {
	G.n_cholesky_solve++;
	return __real_cholesky_solve(AtA, Atb, c, verbose, n_resolves);
}
cholmod_dense *__wrap_SuiteSparseQR_C_backslash_default(cholmod_sparse *A, cholmod_dense *B, cholmod_common *c) {
	G.n_qr++;
	// bounded liveness for a solver without yield points: Lawson-Hanson is finite in theory;
	// far beyond any legitimate iteration count the run is abandoned as "does not terminate"
	if (G.qr_cap > 0 && G.n_qr > G.qr_cap && G.ctx && Sched::current() >= 0) Sched::abandon("lawson_hanson_iterations");
	return __real_SuiteSparseQR_C_backslash_default(A, B, c);
}
void *__wrap_malloc(size_t n) {
	void *p = __real_malloc(n);
	if (p && modelling()) Race::region_alloc(p, n, "heap");
	return p;
}
void *__wrap_calloc(size_t a, size_t b) {
	void *p = __real_calloc(a, b);
	if (p && modelling()) Race::region_alloc(p, a * b, "heap");
	return p;
}
void *__wrap_realloc(void *q, size_t n) {
	if (q && modelling()) Race::region_free(q);
	void *p = __real_realloc(q, n);
	if (p && modelling()) Race::region_alloc(p, n, "heap");
	return p;
}
void __wrap_free(void *p) {
	if (p && modelling()) Race::region_free(p);
	__real_free(p);
}
}

namespace {

// ---------------------------------------------------------------- dense long-double linear algebra for the oracles
typedef long double LD;
// solve S z = r for SPD S (k x k, row-major) by Cholesky; returns false if not PD
bool chol_solve(std::vector<LD> S, std::vector<LD> r, int k, std::vector<LD> &z) {
	for (int j = 0; j < k; j++) {
		LD d = S[(size_t)j * k + j];
		for (int p = 0; p < j; p++) d -= S[(size_t)j * k + p] * S[(size_t)j * k + p];
		if (!(d > 0)) return false;
		d = sqrtl(d);
		S[(size_t)j * k + j] = d;
		for (int i = j + 1; i < k; i++) {
			LD v = S[(size_t)i * k + j];
			for (int p = 0; p < j; p++) v -= S[(size_t)i * k + p] * S[(size_t)j * k + p];
			S[(size_t)i * k + j] = v / d;
		}
	}
	z.assign((size_t)k, 0);
	for (int i = 0; i < k; i++) { LD v = r[(size_t)i]; for (int p = 0; p < i; p++) v -= S[(size_t)i * k + p] * z[(size_t)p]; z[(size_t)i] = v / S[(size_t)i * k + i]; }
	for (int i = k - 1; i >= 0; i--) { LD v = z[(size_t)i]; for (int p = i + 1; p < k; p++) v -= S[(size_t)p * k + i] * z[(size_t)p]; z[(size_t)i] = v / S[(size_t)i * k + i]; }
	return true;
}
LD objective(const std::vector<double> &A, const std::vector<double> &b, const std::vector<LD> &x, int n) {
	LD f = 0;
	for (int i = 0; i < n; i++) {
		LD ax = 0;
		for (int j = 0; j < n; j++) ax += (LD)A[(size_t)i * n + j] * x[(size_t)j];
		f += x[(size_t)i] * (0.5L * ax - (LD)b[(size_t)i]);
	}
	return f;
}
// optimum of min 1/2 x'Ax - b'x, x>=0, by enumeration of the 2^n passive sets
bool brute_nnls(const std::vector<double> &A, const std::vector<double> &b, int n, std::vector<LD> &best, LD &fbest) {
	bool found = false;
	fbest = 0; best.assign((size_t)n, 0);   // the empty passive set: x = 0, f = 0
	found = true;
	for (unsigned mask = 1; mask < (1u << n); mask++) {
		std::vector<int> P;
		for (int i = 0; i < n; i++) if (mask & (1u << i)) P.push_back(i);
		int k = (int)P.size();
		std::vector<LD> S((size_t)k * k), r((size_t)k), z;
		for (int i = 0; i < k; i++) { r[(size_t)i] = b[(size_t)P[(size_t)i]]; for (int j = 0; j < k; j++) S[(size_t)i * k + j] = A[(size_t)P[(size_t)i] * n + P[(size_t)j]]; }
		if (!chol_solve(S, r, k, z)) continue;
		bool feas = true;
		for (int i = 0; i < k; i++) if (z[(size_t)i] < 0) { feas = false; break; }
		if (!feas) continue;
		std::vector<LD> x((size_t)n, 0);
		for (int i = 0; i < k; i++) x[(size_t)P[(size_t)i]] = z[(size_t)i];
		LD f = objective(A, b, x, n);
		if (f < fbest) { fbest = f; best = x; }
	}
	return found;
}

// ---------------------------------------------------------------- problem generation (a pure function of the descriptor)
struct NnlsProblem { int n = 0; std::vector<double> A, b; int m = 0; std::vector<double> M, y; /* least-squares form */ };

// Does the plain full block exchange (Portugal/Judice/Vicente without its safeguard: start from the empty
// passive set, solve on it, move *every* infeasible variable to the other set) cycle on this small system?
bool full_exchange_cycles(const std::vector<double> &A, const std::vector<double> &b, int n) {
	unsigned seen[64] = {0};
	int nseen = 0;
	unsigned F = 0;
	for (int it = 0; it < 48; it++) {
		for (int k = 0; k < nseen; k++) if (seen[k] == F) return true;
		if (nseen < 64) seen[nseen++] = F;
		// x_F = A_FF^-1 b_F by Gaussian elimination (the systems are tiny and positive definite)
		int idx[8], m = 0;
		for (int i = 0; i < n; i++) if (F >> i & 1) idx[m++] = i;
		double T[8][9], x[8] = {0};
		for (int i = 0; i < m; i++) { for (int j = 0; j < m; j++) T[i][j] = A[(size_t)idx[i] * n + idx[j]]; T[i][m] = b[(size_t)idx[i]]; }
		for (int c = 0; c < m; c++) {
			int piv = c;
			for (int r2 = c + 1; r2 < m; r2++) if (std::fabs(T[r2][c]) > std::fabs(T[piv][c])) piv = r2;
			if (std::fabs(T[piv][c]) < 1e-300) return false;
			if (piv != c) for (int j = 0; j <= m; j++) std::swap(T[piv][j], T[c][j]);
			for (int r2 = c + 1; r2 < m; r2++) { double f = T[r2][c] / T[c][c]; for (int j = c; j <= m; j++) T[r2][j] -= f * T[c][j]; }
		}
		for (int i = m - 1; i >= 0; i--) { double v = T[i][m]; for (int j = i + 1; j < m; j++) v -= T[i][j] * x[idx[j]]; x[idx[i]] = v / T[i][i]; }
		unsigned inf = 0;
		for (int i = 0; i < n; i++) {
			if (F >> i & 1) { if (x[i] < -1e-9) inf |= 1u << i; }
			else { double y = -b[(size_t)i]; for (int j = 0; j < n; j++) y += A[(size_t)i * n + j] * x[j]; if (y < -1e-9) inf |= 1u << i; }
		}
		if (!inf) return false;
		F ^= inf;
	}
	return true;
}

NnlsProblem make_nnls_unscaled(const Json &d);
// The matrix may be small in absolute terms while the right-hand side is of order one (A scaled by 10^e, e < 0):
// the minimiser is x/10^e, the multipliers keep their magnitude, the conditioning does not change. Solvers that
// compare matrix entries with absolute thresholds show here. Normal-equation form only.
NnlsProblem make_nnls(const Json &d) {
	NnlsProblem p = make_nnls_unscaled(d);
	int e = (int)d.geti("matrix_scale_exp", 0);
	if (e) { double f = std::pow(10.0, (double)e); for (double &v : p.A) v *= f; p.m = 0; p.M.clear(); p.y.clear(); }
	return p;
}
NnlsProblem make_nnls_unscaled(const Json &d) {
	NnlsProblem p;
	Rng r((uint64_t)strtoull(d.gets("pseed", "1").c_str(), nullptr, 16), "nnls");
	int n = (int)d.geti("n", 4);
	std::string kind = d.gets("kind", "random");
	p.n = n;
	int m0 = n + 1 + (int)r.below((uint64_t)n + 2);
	if (kind == "bumps") m0 = 4 * n;
	// the last n rows of M are sqrt(ridge)*I: A = M'M is positive definite by construction
	int m = m0 + n;
	p.m = m;
	p.M.assign((size_t)m * n, 0); p.y.assign((size_t)m, 0);
	if (kind == "tie2") {
		// two uncoupled identical variables, both coupled in the same way to the rest (dyadic numbers, so that
		// the tie between them is exact in floating point): A = [[1,0,a'],[0,1,a'],[a,a,D]], b = (1,1,...)
		p.m = 0;
		p.A.assign((size_t)n * n, 0); p.b.assign((size_t)n, 0);
		p.A[0] = 1; p.A[(size_t)n + 1] = 1;
		p.b[0] = 1; p.b[1] = 1;
		// Lawson-Hanson frees the largest multiplier first: b0 = b1 = 1 are the largest, so the tied pair enters
		// the passive set first (x0 = x1 = 1); a coupled variable j with 2a < b_j <= 1 is freed next, and with a
		// diagonal only slightly above the Schur complement 2a^2 its solution is large enough to push the pair
		// negative - both members at exactly the same step length
		std::vector<double> acol((size_t)n, 0);
		for (int j = 2; j < n; j++) {
			double a = (double)r.range(2, 7) / 16.0;                    // 1/8 .. 7/16
			acol[(size_t)j] = a;
			p.A[(size_t)j] = p.A[(size_t)j * n] = a;
			p.A[(size_t)n + j] = p.A[(size_t)j * n + 1] = a;
			double lo = 2 * a;
			p.b[(size_t)j] = lo + (1.0 - lo) * (double)r.range(1, 8) / 8.0;   // in (2a, 1]
		}
		for (int i = 2; i < n; i++) for (int j = i + 1; j < n; j++) { double v = (double)r.range(-1, 1) / 32.0; p.A[(size_t)i * n + j] = p.A[(size_t)j * n + i] = v; }
		for (int i = 2; i < n; i++) {
			double off = 0;
			for (int j = 2; j < n; j++) if (j != i) off += std::fabs(p.A[(size_t)i * n + j]) + 2 * std::fabs(acol[(size_t)i] * acol[(size_t)j]);
			p.A[(size_t)i * n + i] = 2 * acol[(size_t)i] * acol[(size_t)i] + off + (double)r.range(1, 8) / 64.0;
		}
		return p;
	}
	if (kind == "exchange_cycles") {
		// Block-diagonal system of n/3 independent 3x3 positive-definite blocks on each of which the plain full
		// block exchange cycles (found by seeded search: about one random block in 3000 does), each copy with
		// its own positive scaling and the variables numbered contiguously or interleaved. The hard instances
		// of the block-pivoting solvers: their safeguard (count of infeasibles, Murty's single-pivot rule) has
		// to break several cycles at once. n > 12: judged through the KKT residual.
		int nb = n / 3; if (nb < 1) nb = 1;
		n = 3 * nb; p.n = n; p.m = 0;
		p.A.assign((size_t)n * n, 0); p.b.assign((size_t)n, 0);
		bool interleave = r.chance(0.5);
		for (int k = 0; k < nb; k++) {
			std::vector<double> Ab(9), bb(3);
			for (int tries = 0; tries < 200000; tries++) {
				double M3[9];
				for (double &v : M3) v = r.normal();
				for (int i = 0; i < 3; i++) for (int j = 0; j < 3; j++) { double sacc = i == j ? 1e-3 : 0; for (int q = 0; q < 3; q++) sacc += M3[q * 3 + i] * M3[q * 3 + j]; Ab[(size_t)i * 3 + j] = sacc; }
				for (double &v : bb) v = r.normal();
				if (full_exchange_cycles(Ab, bb, 3)) break;
			}
			double sc[3];
			for (double &v : sc) v = std::pow(2.0, (double)r.range(-2, 2));
			for (int i = 0; i < 3; i++) {
				int gi = interleave ? i * nb + k : k * 3 + i;
				p.b[(size_t)gi] = sc[i] * bb[(size_t)i];
				for (int j = 0; j < 3; j++) { int gj = interleave ? j * nb + k : k * 3 + j; p.A[(size_t)gi * n + gj] = sc[i] * sc[j] * Ab[(size_t)i * 3 + j]; }
			}
		}
		return p;
	}
	if (kind == "grid") {
		// Normal equations of a tensor-product fit: A = T1 (x) T2 + ridge with banded T's (the sparsity a spline
		// fit produces: sparse, with fill-in in its Cholesky factor), right-hand side with sign changes. n = p*q.
		int pdim = 2; while (pdim * pdim < n) pdim++;
		int p1 = std::max(2, pdim - (int)r.below(2)), p2 = std::max(2, (n + p1 - 1) / p1);
		n = p1 * p2; p.n = n; p.m = 0;
		auto band = [&](int sz, std::vector<double> &T) {
			T.assign((size_t)sz * sz, 0);
			int bw = 1 + (int)r.below(2);
			double d0 = r.uniform(0.55, 0.8);
			for (int i = 0; i < sz; i++) for (int j = 0; j < sz; j++) { int dd = std::abs(i - j); if (dd <= bw) T[(size_t)i * sz + j] = dd == 0 ? d0 : dd == 1 ? (1 - d0) / 2 * (bw == 1 ? 1.0 : 0.8) : (1 - d0) / 2 * 0.2; }
		};
		std::vector<double> T1, T2;
		band(p1, T1); band(p2, T2);
		p.A.assign((size_t)n * n, 0); p.b.assign((size_t)n, 0);
		double ridge = std::pow(10.0, r.uniform(-4, -2));
		for (int i1 = 0; i1 < p1; i1++) for (int i2 = 0; i2 < p2; i2++) for (int j1 = 0; j1 < p1; j1++) for (int j2 = 0; j2 < p2; j2++) {
			int I = i1 * p2 + i2, J = j1 * p2 + j2;
			p.A[(size_t)I * n + J] = T1[(size_t)i1 * p1 + j1] * T2[(size_t)i2 * p2 + j2] + (I == J ? ridge : 0);
		}
		double ph1 = r.uniform(0, 6.28), ph2 = r.uniform(0, 6.28), f1 = r.uniform(0.5, 3), f2 = r.uniform(0.5, 3), off = r.uniform(-0.3, 0.6);
		for (int i1 = 0; i1 < p1; i1++) for (int i2 = 0; i2 < p2; i2++) p.b[(size_t)(i1 * p2 + i2)] = std::sin(f1 * i1 + ph1) * std::cos(f2 * i2 + ph2) + off + 0.2 * r.normal();
		return p;
	}
	bool exact = (kind == "integer" || kind == "degenerate");
	if (exact) {
		// small integers: products and sums are exact, so ties and exact zeros are real
		for (int k = 0; k < m0; k++) for (int j = 0; j < n; j++) p.M[(size_t)k * n + j] = (double)r.range(-3, 3);
		for (int i = 0; i < n; i++) p.M[(size_t)(m0 + i) * n + i] = 1;     // ridge 1
	} else if (kind == "consistent") {
		// a consistent least-squares system: small non-negative integers (strongly correlated columns), y = M x* exactly
		// with exact zeros in x*: zero residual, every multiplier zero - the fully degenerate optimum
		for (int k = 0; k < m0; k++) for (int j = 0; j < n; j++) p.M[(size_t)k * n + j] = (double)r.below(4);
		for (int j = 0; j < n; j++) p.M[(size_t)(j % m0) * n + j] += 2;
		for (int i = 0; i < n; i++) p.M[(size_t)(m0 + i) * n + i] = 1;
		std::vector<double> xs((size_t)n);
		bool anyzero = false;
		for (int j = 0; j < n; j++) { xs[(size_t)j] = r.chance(0.5) ? (double)r.range(1, 3) : 0.0; if (xs[(size_t)j] == 0) anyzero = true; }
		if (!anyzero) xs[r.below((uint64_t)n)] = 0;
		for (int k = 0; k < m; k++) { double sacc = 0; for (int j = 0; j < n; j++) sacc += p.M[(size_t)k * n + j] * xs[(size_t)j]; p.y[(size_t)k] = sacc; }
	} else if (kind == "tspline") {
		// design matrix of a monotone fit: smooth bumps times a lower-triangular ones matrix
		for (int k = 0; k < m0; k++) for (int j = 0; j < n; j++) {
			double t = (double)k / (double)(m0 - 1) * (double)(n - 1);
			double u = t - (double)j;
			double bj = std::fabs(u) < 1.5 ? (1.5 - std::fabs(u)) / 1.5 : 0;
			for (int i = 0; i <= j; i++) p.M[(size_t)k * n + i] += bj;   // column i of B*T = sum_{j>=i} B_j
		}
		for (int k = 0; k < m0; k++) p.y[(size_t)k] = std::sin(3.0 * k / m0 + r.unit()) + 0.3 * r.normal();
		for (int i = 0; i < n; i++) p.M[(size_t)(m0 + i) * n + i] = 1e-2;
	} else if (kind == "tie") {
		// exact ties: variables come in pairs (2i, 2i+1) that the system cannot tell apart - their columns are
		// images of each other under a row swap P, every other column and the data are invariant under P - so
		// both members of a pair reach zero at exactly the same step length (small integers: arithmetic exact)
		int half = m0 / 2; if (half < 1) half = 1;
		m0 = 2 * half; m = m0 + n; p.m = m;
		p.M.assign((size_t)m * n, 0); p.y.assign((size_t)m, 0);
		auto swp = [&](int k) { return k < 2 * half ? (k ^ 1) : k; };
		for (int j = 0; j + 1 < n; j += 2) {
			for (int k = 0; k < m0; k++) p.M[(size_t)k * n + j] = (double)r.range(-3, 3);
			for (int k = 0; k < m0; k++) p.M[(size_t)swp(k) * n + j + 1] = p.M[(size_t)k * n + j];
		}
		if (n % 2) for (int k = 0; k < m0; k += 2) { double v = (double)r.range(-3, 3); p.M[(size_t)k * n + n - 1] = v; p.M[(size_t)(k + 1) * n + n - 1] = v; }
		for (int k = 0; k < m0; k += 2) { double v = (double)r.range(-4, 4); p.y[(size_t)k] = v; p.y[(size_t)k + 1] = v; }
		for (int i = 0; i < n; i++) p.M[(size_t)(m0 + i) * n + i] = 1;     // ridge 1 (keeps the pairs symmetric)
	} else if (kind == "bumps") {
		// strongly overlapping bump columns and data with sign changes: the unconstrained sub-solutions
		// ring, so several outer iterations with projected line searches and pending constraints happen
		double w = r.uniform(0.6, 1.4), ph = r.uniform(0, 6.28), fr = r.uniform(1, 4);
		for (int k = 0; k < m0; k++) {
			double t = (double)k * (n - 1) / (double)(m0 > 1 ? m0 - 1 : 1);
			for (int j = 0; j < n; j++) p.M[(size_t)k * n + j] = std::exp(-0.5 * (t - j) * (t - j) / (w * w));
			p.y[(size_t)k] = std::sin(fr * t * 6.28 / n + ph) + 0.3 * r.normal() + 0.2;
		}
		for (int i = 0; i < n; i++) p.M[(size_t)(m0 + i) * n + i] = 1e-2;
	} else {
		double dens = kind == "sparse" ? 0.3 : 1.0;
		for (int k = 0; k < m0; k++) for (int j = 0; j < n; j++) p.M[(size_t)k * n + j] = r.chance(dens) ? r.normal() : 0;
		for (int k = 0; k < m0; k++) p.y[(size_t)k] = r.normal() * (r.chance(0.2) ? 5 : 1);
		for (int i = 0; i < n; i++) p.M[(size_t)(m0 + i) * n + i] = 0.05 + 0.2 * r.unit();
	}
	if (kind == "scaled") {
		for (int j = 0; j < n; j++) { double s = std::pow(10.0, r.uniform(-2, 2)); for (int k = 0; k < m; k++) p.M[(size_t)k * n + j] *= s; }
	}
	p.A.assign((size_t)n * n, 0);
	for (int i = 0; i < n; i++) for (int j = 0; j <= i; j++) {
		double s = 0;
		for (int k = 0; k < m; k++) s += p.M[(size_t)k * n + i] * p.M[(size_t)k * n + j];
		p.A[(size_t)i * n + j] = p.A[(size_t)j * n + i] = s;
	}
	p.b.assign((size_t)n, 0);
	if (exact) {
		// choose the optimum x* and its multipliers y* first, then b = A x* - y* (all exact integers)
		std::vector<double> xs((size_t)n), ys((size_t)n);
		for (int i = 0; i < n; i++) {
			int c = (int)r.below(4);
			xs[(size_t)i] = c == 0 ? 0 : (double)r.range(1, 5);
			ys[(size_t)i] = xs[(size_t)i] > 0 ? 0 : (kind == "degenerate" && r.chance(0.5) ? 0 : (double)r.range(1, 6));
		}
		for (int i = 0; i < n; i++) { double s = 0; for (int j = 0; j < n; j++) s += p.A[(size_t)i * n + j] * xs[(size_t)j]; p.b[(size_t)i] = s - ys[(size_t)i]; }
		p.m = 0;   // no consistent least-squares right-hand side in general: LS form unused for these kinds
		return p;
	}
	for (int i = 0; i < n; i++) { double s = 0; for (int k = 0; k < m; k++) s += p.M[(size_t)k * n + i] * p.y[(size_t)k]; p.b[(size_t)i] = s; }
	return p;
}

struct Verdict { bool ok = true; std::string what, detail; };

// KKT / optimum oracle for one solver result
Verdict check_nnls(const NnlsProblem &p, const std::vector<double> &x, const std::string &solver, bool exact_nonneg, double tol_abs) {
	Verdict v;
	int n = p.n;
	char d[400];
	double xmax = 0, bmax = 0, amax = 0;
	for (int i = 0; i < n; i++) {
		if (!std::isfinite(x[(size_t)i])) { v.ok = false; v.what = "nonfinite"; snprintf(d, sizeof d, "x[%d] is not finite", i); v.detail = d; return v; }
		xmax = std::max(xmax, std::fabs(x[(size_t)i])); bmax = std::max(bmax, std::fabs(p.b[(size_t)i]));
	}
	for (double a : p.A) amax = std::max(amax, std::fabs(a));
	for (int i = 0; i < n; i++) {
		if (exact_nonneg ? (x[(size_t)i] < 0) : (x[(size_t)i] < -tol_abs * (1 + xmax))) {
			v.ok = false; v.what = "negative_component"; snprintf(d, sizeof d, "x[%d] = %.17g", i, x[(size_t)i]); v.detail = d; return v;
		}
	}
	// gradient g = A x - b with a per-component scale for the tolerance
	for (int i = 0; i < n; i++) {
		LD g = -(LD)p.b[(size_t)i], sc = std::fabs(p.b[(size_t)i]);
		for (int j = 0; j < n; j++) { g += (LD)p.A[(size_t)i * n + j] * x[(size_t)j]; sc += std::fabs(p.A[(size_t)i * n + j] * x[(size_t)j]); }
		double tol = tol_abs * (1.0 + (double)amax) + 1e-7 * (double)sc;
		bool positive = x[(size_t)i] > tol_abs * (1 + xmax);
		if (positive && std::fabs((double)g) > tol) {
			v.ok = false; v.what = "gradient_nonzero_on_positive_component";
			snprintf(d, sizeof d, "x[%d]=%.6g g=%.6g tol=%.3g", i, x[(size_t)i], (double)g, tol); v.detail = d; return v;
		}
		if (!positive && (double)g < -tol) {
			v.ok = false; v.what = "negative_gradient_on_zero_component";
			snprintf(d, sizeof d, "x[%d]=%.6g g=%.6g tol=%.3g", i, x[(size_t)i], (double)g, tol); v.detail = d; return v;
		}
	}
	if (n <= 12) {
		std::vector<LD> xs; LD fs;
		brute_nnls(p.A, p.b, n, xs, fs);
		std::vector<LD> xl(x.begin(), x.end());
		for (auto &e : xl) if (e < 0) e = 0;
		LD f = objective(p.A, p.b, xl, n);
		double gap = (double)(f - fs);
		double gtol = 1e-6 * (1.0 + std::fabs((double)fs)) + 10 * tol_abs * (1 + xmax) * (1 + bmax);
		if (gap > gtol) {
			v.ok = false; v.what = "objective_gap";
			double dx = 0; for (int i = 0; i < n; i++) dx = std::max(dx, std::fabs((double)(xl[(size_t)i] - xs[(size_t)i])));
			snprintf(d, sizeof d, "f(x)-f*=%.6g (tol %.3g), max|x-x*|=%.6g, f*=%.6g", gap, gtol, dx, (double)fs); v.detail = d; return v;
		}
	}
	(void)solver;
	return v;
}

// ---------------------------------------------------------------- direct line-search problems
struct DirectProblem { int nvar = 0, nF = 0; std::vector<long> F; std::vector<double> A, b, x, xF; };

DirectProblem make_direct(const Json &d) {
	DirectProblem p;
	Rng r((uint64_t)strtoull(d.gets("pseed", "1").c_str(), nullptr, 16), "direct");
	int n = (int)d.geti("n", 3), extra = (int)d.geti("extra", 0);
	std::string mode = d.gets("xf_mode", "solve");
	p.nF = n; p.nvar = n + extra;
	std::vector<long> all((size_t)p.nvar);
	for (int i = 0; i < p.nvar; i++) all[(size_t)i] = i;
	for (int i = p.nvar - 1; i > 0; i--) std::swap(all[(size_t)i], all[r.below((uint64_t)i + 1)]);
	p.F.assign(all.begin(), all.begin() + n);
	std::sort(p.F.begin(), p.F.end());
	int m = n + 2;
	std::vector<double> M((size_t)m * n);
	for (auto &v : M) v = r.normal();
	p.A.assign((size_t)n * n, 0);
	for (int i = 0; i < n; i++) for (int j = 0; j <= i; j++) {
		double s = i == j ? 0.05 : 0;
		for (int k = 0; k < m; k++) s += M[(size_t)k * n + i] * M[(size_t)k * n + j];
		p.A[(size_t)i * n + j] = p.A[(size_t)j * n + i] = s;
	}
	p.b.assign((size_t)n, 0);
	for (auto &v : p.b) v = r.normal() * 2;
	p.x.assign((size_t)p.nvar, 0);
	bool ties = d.getb("ties", false);
	for (int i = 0; i < n; i++) {
		int c = (int)r.below(6);
		p.x[(size_t)p.F[(size_t)i]] = c == 0 ? 0.0 : c == 1 ? 1e-12 : ties ? (double)r.range(1, 3) : r.uniform(0.01, 3);
	}
	p.xF.assign((size_t)n, 0);
	if (mode == "solve") {
		std::vector<LD> S(p.A.begin(), p.A.end()), rr(p.b.begin(), p.b.end()), z;
		if (chol_solve(S, rr, n, z)) for (int i = 0; i < n; i++) p.xF[(size_t)i] = (double)z[(size_t)i];
		// push some components negative so that trial steps exist
		int k = (int)d.geti("neg", 1);
		for (int i = 0; i < k && i < n; i++) { size_t j = r.below((uint64_t)n); p.xF[j] = -std::fabs(p.xF[j]) - r.uniform(0.1, 2); }
	} else if (mode == "random") {
		for (auto &v : p.xF) v = r.normal() * 2;
	} else if (mode == "negative") {
		for (auto &v : p.xF) v = ties ? -(double)r.range(1, 3) : -r.uniform(0.1, 3);
	} else if (mode == "at_optimum") {
		// x already minimises the objective on F (b := A x), so no projected step reduces the residual:
		// every block of trial steps is executed and the last (smallest) step is taken
		for (int i = 0; i < n; i++) p.x[(size_t)p.F[(size_t)i]] = ties ? (double)r.range(1, 3) : r.uniform(0.5, 3);
		for (int i = 0; i < n; i++) { double sacc = 0; for (int j = 0; j < n; j++) sacc += p.A[(size_t)i * n + j] * p.x[(size_t)p.F[(size_t)j]]; p.b[(size_t)i] = sacc; }
		for (auto &v : p.xF) v = ties ? -(double)r.range(1, 3) : -r.uniform(0.1, 3);
	} else { // "uphill": the unconstrained point is worse everywhere, only the last step is taken
		for (int i = 0; i < n; i++) p.xF[(size_t)i] = -50 * r.uniform(0.5, 1.5);
	}
	return p;
}

// ---------------------------------------------------------------- whole-fit problems
struct FitProblem {
	uint32_t ndim = 1;
	std::vector<uint32_t> order, porder;
	std::vector<std::vector<double>> knots, coords;
	std::vector<double> smoothing;
	std::vector<double> values, weights;           // one per retained grid point
	std::vector<std::vector<unsigned>> idx;        // [dim][row]
	uint32_t monodim = 0;
	bool expect_inactive = false;
	double wscale = 1.0;                           // common factor on weights and smoothing handed to the library
};

FitProblem make_fit(const Json &d) {
	FitProblem p;
	Rng r((uint64_t)strtoull(d.gets("pseed", "1").c_str(), nullptr, 16), "fit");
	p.ndim = (uint32_t)d.geti("ndim", 1);
	p.monodim = (uint32_t)d.geti("monodim", 0);
	std::string data = d.gets("data", "noisy_increasing");
	std::string wk = d.gets("weights", "ones");
	std::string kk = d.gets("knots", "uniform");
	double smooth = d.getd("smooth", 0);
	double sparse = d.getd("sparse", 0);
	const Json &orders = d["order"], &ncoef = d["ncoef"], &npts = d["npts"];
	for (uint32_t i = 0; i < p.ndim; i++) {
		uint32_t ord = (uint32_t)orders[i].integer();
		int nc = (int)ncoef[i].integer();
		int np = (int)npts[i].integer();
		p.order.push_back(ord);
		// penalty order <= spline order: a higher one makes glam.c:divided_diffs overrun its
		// order-sized scratch arrays (an argument-validation gap, C13's territory, not simulated here)
		p.porder.push_back((uint32_t)std::min<int64_t>(std::min<int64_t>(d.geti("porder", 2), ord), std::max<int64_t>(1, nc - 1)));
		int nk = nc + (int)ord + 1;
		std::vector<double> k((size_t)nk);
		// fully supported range is [k[ord], k[nc]]; data live on [0,1]
		double lo = -(double)ord, step = 1.0;
		for (int j = 0; j < nk; j++) k[(size_t)j] = lo + step * j;
		double a = k[ord], b = k[(size_t)nc];
		for (auto &v : k) v = (v - a) / (b - a);
		if (kk == "irregular")
			for (int j = 1; j + 1 < nk; j++) k[(size_t)j] += r.uniform(-0.3, 0.3) / (b - a);
		std::sort(k.begin(), k.end());
		p.knots.push_back(k);
		// missing cells: keep the grid dense enough that every basis function still sees data
		if (sparse > 0) np = std::max(np, 2 * nc + 2);
		std::vector<double> c((size_t)np);
		for (int j = 0; j < np; j++) c[(size_t)j] = (np == 1) ? 0.5 : (double)j / (np - 1) * 0.98 + 0.01;
		// data that do not reach the ends of the knot range of the monotonic dimension: the outer
		// basis functions see no data and are determined by the penalty alone
		if (i == p.monodim && d.has("cover_hi")) {
			double lo = d.getd("cover_lo", 0.0), hi = d.getd("cover_hi", 1.0);
			for (auto &v : c) v = lo + (hi - lo) * v;
		}
		p.coords.push_back(c);
	}
	p.smoothing.assign(1, smooth);
	if (d.has("smooth_vec")) {   // per-dimension smoothing strengths (zeros allowed)
		p.smoothing.clear();
		for (uint32_t i = 0; i < p.ndim; i++) p.smoothing.push_back(d["smooth_vec"][i].num());
	}
	// coarse axis units: knots and abscissas of every dimension multiplied by the same factor
	double ascale = d.getd("axis_scale", 1.0);
	if (ascale != 1.0)
		for (uint32_t i = 0; i < p.ndim; i++) { for (auto &v : p.knots[i]) v *= ascale; for (auto &v : p.coords[i]) v *= ascale; }
	size_t total = 1;
	for (auto &c : p.coords) total *= c.size();
	p.idx.assign(p.ndim, {});
	std::vector<unsigned> ix(p.ndim, 0);
	double phase = r.uniform(0, 6.28);
	for (size_t row = 0; row < total; row++) {
		size_t rem = row;
		for (int dd = (int)p.ndim - 1; dd >= 0; dd--) { ix[(size_t)dd] = (unsigned)(rem % p.coords[(size_t)dd].size()); rem /= p.coords[(size_t)dd].size(); }
		double t = p.coords[p.monodim][ix[p.monodim]] / ascale;
		double other = 0;
		for (uint32_t dd = 0; dd < p.ndim; dd++) if (dd != p.monodim) other += std::sin(3 * p.coords[dd][ix[dd]] / ascale + phase);
		double v;
		if (data == "increasing") v = 1 + 2 * t + t * t + 0.2 * other * 0 + 0.5 * (other + (double)p.ndim);
		else if (data == "noisy_increasing") v = 1 + 3 * t + 0.3 * other + 0.4 * r.normal();
		else if (data == "very_noisy") v = 1 + 2 * t + 0.3 * other + 1.5 * r.normal();
		else if (data == "dips") v = 1 + 4 * t + 0.8 * std::sin(25 * t + phase) + 0.2 * other + 0.2 * r.normal();
		else if (data == "decreasing") v = 3 - 3 * t + 0.2 * other + 0.1 * r.normal();
		else if (data == "oscillating") v = 1 + std::sin(9 * t + phase) + 0.3 * other;
		else if (data == "constant") v = 2.5;
		else if (data == "negative") v = -1 - t + 0.1 * r.normal();
		else if (data == "step") v = t > 0.5 ? 5 : 0.5;
		else v = r.normal() * 2;
		bool keep = !(sparse > 0 && r.chance(sparse));
		// the generator still draws the weight so that dropping rows does not shift the stream
		double w = wk == "ones" ? 1.0 : wk == "random" ? r.uniform(0.1, 3) : (r.chance(0.2) ? 1e-3 : r.uniform(0.5, 2));
		if (!keep) continue;
		for (uint32_t dd = 0; dd < p.ndim; dd++) p.idx[dd].push_back(ix[dd]);
		p.values.push_back(v);
		p.weights.push_back(w);
	}
	if (p.values.empty()) {   // keep at least one point
		for (uint32_t dd = 0; dd < p.ndim; dd++) p.idx[dd].push_back(0);
		p.values.push_back(1); p.weights.push_back(1);
	}
	if (d.has("wscale_exp")) p.wscale = std::pow(10.0, (double)d.geti("wscale_exp"));
	if (p.wscale < 1.0 && wk == "mixed") for (double &w : p.weights) if (w < 0.01) w = 0.5;   // no 1e-3 weights under a small common factor
	bool any_smooth = false;
	for (double v : p.smoothing) if (v != 0) any_smooth = true;
	p.expect_inactive = (data == "increasing" && !any_smooth && sparse == 0);
	return p;
}

struct FitResult { bool ok = false; std::string err; std::vector<float> coef; std::vector<uint64_t> naxes, strides; };

FitResult run_fit(const FitProblem &p, std::unique_ptr<photospline::splinetable<>> *keep = nullptr) {
	FitResult fr;
	::ndsparse data;
	if (ndsparse_allocate(&data, p.values.size(), p.ndim) != 0) { fr.err = "ndsparse_allocate"; return fr; }
	for (size_t row = 0; row < p.values.size(); row++) {
		data.x[row] = p.values[row];
		for (uint32_t dd = 0; dd < p.ndim; dd++) data.i[dd][row] = p.idx[dd][row];
	}
	for (uint32_t dd = 0; dd < p.ndim; dd++) data.ranges[dd] = (unsigned)p.coords[dd].size();
	std::unique_ptr<photospline::splinetable<>> t(new photospline::splinetable<>());
	try {
		// weights are inverse variances: their unit is the caller's. A common factor on weights and penalty leaves
		// every fit where it is; the library sees the scaled numbers, the oracles the problem as generated
		std::vector<double> w2 = p.weights, sm2 = p.smoothing;
		if (p.wscale != 1.0) { for (double &v : w2) v *= p.wscale; for (double &v : sm2) v *= p.wscale; }
		t->fit(data, w2, p.coords, p.order, p.knots, sm2, p.porder, p.monodim, getenv("PSV_VERBOSE") != nullptr);
		fr.ok = true;
		fr.coef.assign(t->get_coefficients(), t->get_coefficients() + t->get_ncoeffs());
		for (uint32_t dd = 0; dd < p.ndim; dd++) { fr.naxes.push_back(t->get_ncoeffs(dd)); fr.strides.push_back(t->get_stride(dd)); }
	} catch (std::exception &e) {
		fr.err = e.what();
	}
	ndsparse_free(&data);
	if (keep && fr.ok) *keep = std::move(t);
	return fr;
}

// Cox-de Boor basis value of B-spline j of degree `ord` on knots k at x (own code, for the C10 reference)
double bspl(const std::vector<double> &k, int j, int ord, double x) {
	if (ord == 0) return (x >= k[(size_t)j] && x < k[(size_t)j + 1]) ? 1.0 : 0.0;
	double a = 0, b = 0;
	double d1 = k[(size_t)(j + ord)] - k[(size_t)j], d2 = k[(size_t)(j + ord + 1)] - k[(size_t)j + 1];
	if (d1 > 0) a = (x - k[(size_t)j]) / d1 * bspl(k, j, ord - 1, x);
	if (d2 > 0) b = (k[(size_t)(j + ord + 1)] - x) / d2 * bspl(k, j + 1, ord - 1, x);
	return a + b;
}

// ---------------------------------------------------------------- the harness
struct SchedHarness : Harness {
	const char *name() const override { return "psv_sched"; }
	bool serves(const std::string &p) const override { return p == "C10" || p == "C11" || p == "C12"; }

	static std::string hexseed(Rng &r) { return hex64(r.next()); }

	Json gen_sched(Rng &k, int workers, int est_len) {
		SchedConfig c;
		c.seed = k.next();
		int pol = (int)k.below(100);
		if (pol < 30) c.policy = "random";
		else if (pol < 50) { c.policy = "pct"; c.pct_depth = 1 + (int)k.below(3); c.stall_len = est_len; }
		else if (pol < 70) {
			c.policy = "stall";
			// the coordinator is a favoured victim: the hand-shake needs it descheduled
			c.stall_victim = k.chance(0.6) ? 0 : 1 + (int)k.below((uint64_t)workers);
			c.stall_start = (int)k.below((uint64_t)est_len);
			c.stall_len = 3 + (int)k.below(40);
		}
		else if (pol < 85) { c.policy = "sticky"; static const double ps[] = {0.05, 0.2, 0.5}; c.sticky_p = ps[k.below(3)]; }
		else if (pol < 93) c.policy = "newest";
		else c.policy = "oldest";
		// a timed wait may time out before it is signalled (its thread was "slow"): legal at any time, so a
		// third of the runs let timed waits expire at once; code without timed waits is unaffected
		c.timedwait_timeouts = k.chance(0.33);
		c.spurious = k.chance(0.25);
		c.spurious_p = 0.08;
		c.spurious_max = 1 + (int)k.below(6);
		return c.to_json();
	}

	Json generate(const std::string &prop, uint64_t runseed, const std::string &tier) override {
		Rng gen(runseed, "gen"), knob(runseed, "knob");
		Json plan = Json::object();
		plan["prop"] = Json(prop);
		static const int wset[] = {1, 2, 3, 4, 5, 8, 16, 32};
		int workers = wset[knob.below(8)];
		if (knob.chance(0.5)) workers = 1 + (int)knob.below(3);      // bias to the small counts where every interleaving matters
		Json prob = Json::object();
		std::string depth;
		int u = (int)gen.below(100);
		if (prop == "C12") depth = u < 70 ? "direct" : u < 90 ? "block3" : "fit";
		else if (prop == "C11") depth = u < 70 ? "block3" : "plain";
		else depth = "fit";
		(void)tier;
		prob["depth"] = Json(depth);
		prob["pseed"] = Json(hexseed(gen));
		int est_len = 40;
		if (depth == "direct") {
			int n = 1 + (int)gen.below(10);
			prob["n"] = Json(n);
			prob["extra"] = Json((int)gen.below(4));
			static const char *modes[] = {"solve", "solve", "random", "negative", "uphill"};
			prob["xf_mode"] = Json(modes[gen.below(5)]);
			prob["neg"] = Json(1 + (int)gen.below((uint64_t)n));
			prob["ties"] = Json(gen.chance(0.2));
			// the small configurations of C12's quantifier: several fruitless blocks need many trial steps and a
			// search in which the long steps do not reduce the residual
			if (workers <= 3 && gen.chance(0.35)) {
				prob["xf_mode"] = Json("at_optimum");
				int nn = 1 + (int)gen.below((uint64_t)(3 * workers - 2));     // n_alpha = n+2 <= 3*workers: at most three blocks, all executed
				prob["n"] = Json(nn); prob["neg"] = Json(nn);
			}
			est_len = 20 + 12 * workers;
		} else if (depth == "block3" || depth == "plain") {
			int n = 2 + (int)gen.below(9);
			static const char *kinds[] = {"random", "random", "integer", "degenerate", "scaled", "sparse", "tspline", "tspline", "bumps", "bumps", "bumps", "tie", "tie2", "tie2"};
			std::string kind = kinds[gen.below(14)];
			{ Rng cs(runseed, "consistent_family"); if (cs.chance(0.06)) { kind = "consistent"; n = 3 + (int)cs.below(6); } }
			if (kind == "tie2") n = 3 + (int)gen.below(5);
			if (kind == "bumps" || (kind == "tspline" && gen.chance(0.5))) n = 6 + (int)gen.below(7);   // 6..12: room for multi-step active-set histories
			if (kind == "sparse" && gen.chance(0.5)) n = 13 + (int)gen.below(28);   // beyond enumeration: KKT residual only
			// a few large dense systems with one or two workers: only there modify_factor's heuristic picks
			// row up/down-dates for several rows at once (checked through the KKT residual)
			bool big = gen.chance(0.05);
			if (big) { kind = "random"; n = 60 + (int)gen.below(61); workers = 1 + (int)gen.below(2); }
			{
				// normal equations with the sparsity of a tensor-product fit (own stream)
				Rng gr(runseed, "grid_family");
				if (!big && gr.chance(0.10)) { kind = "grid"; n = 6 + (int)gr.below(gr.chance(0.6) ? 20 : 60); }
			}
			{
				// systems made of blocks on which the plain full exchange cycles (own stream)
				Rng xc(runseed, "exchange_cycles");
				if (!big && xc.chance(0.07)) { kind = "exchange_cycles"; n = 3 * (xc.chance(0.3) ? 1 + (int)xc.below(4) : 5 + (int)xc.below(8)); }
			}
			prob["n"] = Json(n);
			prob["kind"] = Json(kind);
			{ Rng st(runseed, "storage"); if (st.chance(0.2)) prob["storage"] = Json("unsorted"); }
			bool mscaled = false;
			{ Rng ms(runseed, "matrix_scale"); static const int me[] = {-6, -5, -4, -3}; if (!big && ms.chance(0.08)) { prob["matrix_scale_exp"] = Json(me[ms.below(4)]); mscaled = true; } }
			// (not below 1e-6: BLOCK3 itself drops matrix entries below DBL_EPSILON in absolute terms; at a scale of 1e-10 that
			// removes entries of relative size 2e-6 and shifts the gradient by about that much on the unchanged tree - observed,
			// marginally above the oracle's tolerance, and left outside the generated range)
			if (depth == "plain") {
				static const char *sv[] = {"block", "updown", "lh_normal", "lh_ls"};
				std::string s = sv[gen.below(4)];
				if (big) s = gen.chance(0.5) ? "updown" : "block";
				if (mscaled && (s == "lh_ls" || s == "lh_normal")) s = gen.chance(0.5) ? "block" : "updown";   // normal-equation solvers only
				if (s == "lh_ls" && (kind == "integer" || kind == "degenerate" || kind == "tie2" || kind == "exchange_cycles" || kind == "grid")) s = "lh_normal";
				prob["solver"] = Json(s);
				static const double tols[] = {0, 0, 1e-10};
				prob["lh_tol"] = Json(tols[gen.below(3)]);
				// 0 = "no iteration limit" in the solver's interface
				prob["lh_maxiter"] = Json(gen.chance(0.5) ? 0 : 50 * n + 50);
				{ Rng un(runseed, "units"); static const int ue[] = {-9, -6, -3, 3, 6}; if (un.chance(0.25)) prob["unit_exp"] = Json(ue[un.below(5)]); }
			} else prob["solver"] = Json("block3");
			est_len = 100;
		} else {
			int ndim = 1 + (int)gen.below(3);
			if (gen.chance(0.4)) ndim = 1;
			prob["ndim"] = Json(ndim);
			prob["monodim"] = Json((int)gen.below((uint64_t)ndim));
			Json o = Json::array(), nc = Json::array(), np = Json::array();
			int budget = ndim == 1 ? 14 : ndim == 2 ? 7 : 4;
			for (int i = 0; i < ndim; i++) {
				int ord = 1 + (int)gen.below(4);
				if (ndim == 3) ord = 1 + (int)gen.below(2);
				int c = ord + 1 + (int)gen.below((uint64_t)budget);
				if (ndim == 3 && c > 5) c = 5;
				o.push(Json(ord)); nc.push(Json(c)); np.push(Json(c + 2 + (int)gen.below(8)));
			}
			prob["order"] = o; prob["ncoef"] = nc; prob["npts"] = np;
			static const char *dk[] = {"increasing", "noisy_increasing", "noisy_increasing", "very_noisy", "very_noisy", "dips", "dips", "decreasing",
			                           "oscillating", "oscillating", "constant", "negative", "step", "random", "random"};
			prob["data"] = Json(dk[gen.below(15)]);
			static const char *wk[] = {"ones", "random", "mixed"};
			prob["weights"] = Json(wk[gen.below(3)]);
			{ Rng ws(runseed, "weight_scale"); static const int we[] = {-6, -5, -4, -3, 2, 4}; if (ws.chance(0.12)) prob["wscale_exp"] = Json(we[ws.below(6)]); }
			// (not below 1e-6, and never on top of the 'mixed' pattern's weights of 1e-3: BLOCK3's stopping tolerance is absolute,
			// n*eps*1e5, so with effective weights of 1e-9 and less the unchanged solver stops early and the monotonic fit differs
			// from the unconstrained one by several per cent - observed in the thorough tier at 1e-6/1e-7, a consequence of the
			// solver's stated tolerance, left outside the generated range)
			static const char *kk[] = {"uniform", "uniform", "irregular"};
			prob["knots"] = Json(kk[gen.below(3)]);
			static const double sm[] = {0, 0, 1e-6, 1e-2, 1, 1e3, 1e6};
			double smooth = sm[gen.below(7)];
			bool sparse = gen.chance(0.3);
			// missing cells make the unpenalised problem rank deficient (nnls.c: "all algorithms
			// require full-rank problems"), so sparse data sets always carry a penalty
			if (sparse && smooth < 1e-2) smooth = 1e-2;
			prob["smooth"] = Json(smooth);
			prob["porder"] = Json(1 + (int)gen.below(3));   // clipped to the spline order per dimension in make_fit
			prob["sparse"] = Json(sparse ? 0.3 : 0.0);
			// per-dimension smoothing (some dimensions unpenalised), coarse axis units, identical grids in all
			// dimensions: configurations in which the change of basis of the monotonic dimension can go wrong
			// (only up to 1e3: a 1e6 penalty that leaves other dimensions unpenalised makes principal sub-matrices
			// of the normal equations numerically singular - CHOLMOD reports "not positive definite" - which is
			// outside the positive-definite systems the solver is specified for)
			if (!sparse && smooth > 0 && smooth <= 1e3 && gen.chance(0.4)) {
				Json sv = Json::array();
				bool any = false;
				for (int i = 0; i < ndim; i++) { bool on = gen.chance(0.5); any = any || on; sv.push(Json(on ? smooth : 0.0)); }
				if (!any) sv[(size_t)prob.geti("monodim")] = Json(smooth);
				prob["smooth_vec"] = sv;
			}
			// (not on sparse grids: the penalty that keeps those full rank shrinks like 1/h^(2*porder))
			if (!sparse && gen.chance(0.25)) prob["axis_scale"] = Json(gen.chance(0.5) ? 1e3 : 1e6);
			{
				// (own stream; only with a penalty in every dimension, which keeps the uncovered part determined)
				Rng cov(runseed, "cover");
				if (!sparse && smooth >= 1e-2 && !prob.has("smooth_vec") && !prob.has("axis_scale") && cov.chance(0.2)) {
					prob["cover_hi"] = Json(0.5 + 0.4 * cov.unit());
					prob["cover_lo"] = Json(cov.chance(0.3) ? 0.3 * cov.unit() : 0.0);
				}
			}
			if (ndim >= 2 && gen.chance(0.3)) {
				Json o2 = Json::array(), nc2 = Json::array(), np2 = Json::array();
				for (int i = 0; i < ndim; i++) { o2.push(o[(size_t)0]); nc2.push(nc[(size_t)0]); np2.push(np[(size_t)0]); }
				prob["order"] = o2; prob["ncoef"] = nc2; prob["npts"] = np2;
				prob["same_grid"] = Json(true);
			}
			est_len = 200;
		}
		plan["problem"] = prob;
		plan["workers"] = Json(workers);
		plan["affinity_fails"] = Json(knob.chance(0.1));
		{
			// CPUs of the simulated machine (own stream: older plans keep their other fields). Binding a
			// thread to a CPU the machine does not have fails, as it does on a real one.
			Rng cpus(runseed, "cpus");
			static const int nc[] = {1, 2, 4, 8, 16};
			plan["ncpus"] = Json(cpus.chance(0.5) ? 0 : nc[cpus.below(5)]);
		}
		{
			// form of the simulated environment (own stream): which of GOTO_NUM_THREADS / OMP_NUM_THREADS exist
			Rng ev(runseed, "environment");
			static const char *forms[] = {"both", "goto", "omp", "both_differ", "neither"};
			Json e = Json::object();
			int f = ev.chance(0.4) ? 0 : 1 + (int)ev.below(4);
			e["form"] = Json(forms[f]);
			e["style"] = Json((long long)(ev.chance(0.7) ? 0 : ev.below(4)));
			static const int others[] = {1, 2, 3, 7, 64};
			e["other"] = Json(others[ev.below(5)]);
			plan["env"] = e;
			// without either variable the worker count is the machine's CPU count
			if (f == 4) plan["ncpus"] = Json(workers);
		}
		{
			// CHOLMOD's factorisation strategy (own stream). A fit builds its own cholmod_common with the library's
			// defaults, so only what those defaults can do is explored there; a caller of the solvers passes its own.
			Rng cm(runseed, "cholmod_mode");
			int w = (int)cm.below(100);
			const char *mode = w < 45 ? "simplicial" : w < 80 ? "auto" : "supernodal";
			if (depth == "fit" && w >= 80) mode = "auto";
			plan["cholmod"] = Json(mode);
		}
		{ Rng co(runseed, "call_order"); plan["one_worker_first"] = Json(co.chance(0.5)); }
		plan["schedule"] = gen_sched(knob, workers, est_len);
		plan["cross_workers"] = Json(depth == "fit" && knob.chance(0.25));
		return plan;
	}

	void report_outcome(RunCtx &ctx, const SchedOutcome &o, const std::string &what) {
		ctx.aux["trace"] = Json::array();
		for (auto v : o.trace) ctx.aux["trace"].push(Json((long long)v));
		ctx.seen("interleavings", o.trace_hash);
		ctx.count("fibers", o.fibers);
		if (o.spurious_delivered) ctx.count("probe:spurious_wakeup_delivered");
		if (o.diverged) ctx.count("probe:explicit_schedule_diverged");
		switch (o.kind) {
		case SchedOutcome::OK: break;
		// "the solver terminates" is C11's own clause: when C11 is the property being checked a solver that
		// never returns under the sampled schedule is reported under C11 (the same event is C12's when C12 is checked)
		case SchedOutcome::DEADLOCK:
			if (G.prop == "C11") ctx.violate("C11|no_termination|" + what + "|deadlock", "solver never returns: no enabled thread while threads are unfinished: " + o.detail);
			else ctx.violate("C12|deadlock|" + what + "|" + (o.detail.find("not-signalled") != std::string::npos ? "lost_wakeup" : "blocked"),
			            "no enabled thread while threads are unfinished: " + o.detail);
			break;
		case SchedOutcome::BUDGET:
			if (G.prop == "C11") ctx.violate("C11|no_termination|" + what + "|run_budget", "step budget of the whole run exhausted: " + o.detail);
			else ctx.violate("C12|no_progress|" + what + "|run_budget", "step budget of the whole run exhausted: " + o.detail);
			break;
		case SchedOutcome::CALL_BUDGET:
			if (G.prop == "C11") ctx.violate("C11|no_termination|" + what + "|call_budget", "line search did not finish within its logical-step bound: " + o.detail);
			else ctx.violate("C12|no_progress|" + what + "|call_budget", "line search did not finish within its logical-step bound: " + o.detail);
			break;
		case SchedOutcome::MISUSE: ctx.violate("C12|pthread_misuse|" + what, o.detail); break;
		case SchedOutcome::ABANDONED:
			if (o.detail == "line_search_count" && G.prop != "C11") ctx.violate("C12|no_progress|" + what + "|line_search_count", "the solve keeps asking for line searches far beyond its own iteration bound; run abandoned");
			else ctx.violate("C11|no_termination|" + what + "|" + o.detail, "solver exceeded any legitimate iteration count; run abandoned");
			break;
		}
		for (auto &r : Race::reports()) ctx.violate("C12|data_race|" + what + "|" + r.what, r.detail);
		ctx.count("race_accesses", Race::accesses());
	}

	void execute(const Json &plan, RunCtx &ctx) override {
		const Json &prob = plan["problem"];
		std::string depth = prob.gets("depth");
		std::string prop = plan.gets("prop", ctx.prop);
		int workers = (int)plan.geti("workers", 1);
		SchedConfig sc = SchedConfig::from_json(plan["schedule"]);
		G = Global();
		G.ctx = &ctx; G.workers = workers; G.prop = prop;
		G.one_worker_first = plan.getb("one_worker_first");
		psv_env_threads = workers;
		psv_affinity_fails = plan.getb("affinity_fails") ? 1 : 0;
		psv_ncpus = (int)plan.geti("ncpus", 0);
		{
			std::string f = plan["env"].gets("form", "both");
			psv_env_form = f == "goto" ? 1 : f == "omp" ? 2 : f == "both_differ" ? 3 : f == "neither" ? 4 : 0;
			psv_env_style = (int)plan["env"].geti("style", 0);
			psv_env_other = (int)plan["env"].geti("other", 1);
			ctx.count("env:" + f);
		}
		{
			std::string cm = plan.gets("cholmod", "simplicial");
			psv_cholmod_mode = cm == "auto" ? CHOLMOD_AUTO : cm == "supernodal" ? CHOLMOD_SUPERNODAL : CHOLMOD_SIMPLICIAL;
			ctx.count("cholmod:" + cm);
		}
		uint64_t blas0 = psv_refblas_calls;
		Race::enable(true);
		ctx.crumb("exec|%s|workers=%d", depth.c_str(), workers);
		ctx.log.ev("plan depth=%s workers=%d policy=%s", depth.c_str(), workers, sc.policy.c_str());
		ctx.count("depth:" + depth);
		ctx.count("workers:" + std::to_string(workers));
		G.depth_direct = depth == "direct";
		if (depth == "direct") exec_direct(plan, prob, sc, ctx);
		else if (depth == "block3" || depth == "plain") exec_nnls(plan, prob, sc, ctx, prop);
		else exec_fit(plan, prob, sc, ctx, prop);
		if (G.cref_started) { cholmod_l_finish(&G.cref); G.cref_started = false; }
		if (psv_refblas_calls != blas0) { ctx.count("probe:supernodal_factorisation_ran"); ctx.count("refblas_calls", (int64_t)(psv_refblas_calls - blas0)); }
		psv_cholmod_mode = CHOLMOD_SIMPLICIAL;
		G.ctx = nullptr;
		psv_env_threads = 0;
	}

	void exec_direct(const Json &plan, const Json &prob, const SchedConfig &sc, RunCtx &ctx) {
		DirectProblem p = make_direct(prob);
		cholmod_common c; cholmod_l_start(&c);
		cholmod_sparse *A = dense_to_sparse_full(p.A, p.nF, &c);
		cholmod_dense *b = vec_to_dense(p.b, &c), *x = vec_to_dense(p.x, &c), *xF = vec_to_dense(p.xF, &c);
		std::vector<long> F = p.F, H1((size_t)p.nvar + 1, -1);
		long nF = p.nF, nH1 = 0; double residual = DBL_MAX; int calcs = 0;
		int ret = -1;
		SchedOutcome o = Sched::run(sc, &ctx, [&]() {
			ret = walk_descents(A, b, x, xF, F.data(), &nF, H1.data(), &nH1, &residual, &calcs, 0, &c);
		});
		report_outcome(ctx, o, "walk_descents");
		if (o.kind == SchedOutcome::OK) {
			ctx.log.ev("direct ret=%d nH1=%ld residual=%a calcs=%d", ret, nH1, residual, calcs);
			for (size_t k = 0; k < x->nrow; k++) ctx.log.ev("x[%zu]=%a", k, ((double *)x->x)[k]);
			cholmod_l_free_sparse(&A, &c); cholmod_l_free_dense(&b, &c); cholmod_l_free_dense(&x, &c); cholmod_l_free_dense(&xF, &c);
			cholmod_l_finish(&c);
		}
		// after an abandoned run the CHOLMOD objects are still referenced from dead fiber stacks: leaked on purpose
		if (o.preemptions > 0 || o.spurious_delivered > 0) ctx.seen("nontrivial", hash_json(plan));
		// the configurations C12's quantifier singles out: 1..3 workers over 1..3 blocks of trial steps
		int workers = (int)plan.geti("workers", 1);
		if (workers <= 3 && G.max_blocks >= 1 && G.max_blocks <= 3) {
			uint64_t key[3] = {o.trace_hash, (uint64_t)workers, (uint64_t)G.max_blocks};
			ctx.seen("interleavings_1to3_workers_1to3_blocks", fnv1a(key, sizeof key));
			ctx.count("small_config:" + std::to_string(workers) + "w" + std::to_string(G.max_blocks) + "b");
		}
	}

	void exec_nnls(const Json &plan, const Json &prob, const SchedConfig &sc, RunCtx &ctx, const std::string &prop) {
		NnlsProblem p = make_nnls(prob);
		std::string solver = prob.gets("solver", "block3");
		cholmod_common c; cholmod_l_start(&c);
		cholmod_sparse *A = nullptr; cholmod_dense *b = nullptr, *xr = nullptr;
		if (solver == "lh_ls") { A = rect_to_sparse(p.M, p.m, p.n, &c); b = vec_to_dense(p.y, &c); }
		else { A = dense_to_sparse_full(p.A, p.n, &c); b = vec_to_dense(p.b, &c); }
		// Units of the data (Lawson-Hanson with tolerance 0 only: its answer does not depend on them, the other
		// solvers state absolute tolerances). The solver gets the system in units of 10^u; the oracle judges the
		// returned vector on the system as generated, whose minimiser is the same.
		int unit_exp = (int)prob.geti("unit_exp", 0);
		if (unit_exp && (solver == "lh_normal" || solver == "lh_ls") && prob.getd("lh_tol", 0) == 0) {
			double sc1 = std::pow(10.0, (double)unit_exp), f = solver == "lh_ls" ? sc1 : sc1 * sc1;
			for (size_t k = 0; k < A->nzmax; k++) ((double *)A->x)[k] *= f;
			for (size_t k = 0; k < b->nzmax; k++) ((double *)b->x)[k] *= f;
			ctx.count("probe:system_in_other_units");
		}
		// Row indices within a column need not be ascending in a CHOLMOD matrix (sorted = 0; cholmod_add(.., sorted=0),
		// which the fitter itself uses, returns such matrices): the same system, stored with its columns shuffled
		if (prob.gets("storage", "sorted") == "unsorted") { shuffle_columns(A, (uint64_t)strtoull(prob.gets("pseed", "1").c_str(), nullptr, 16)); ctx.count("probe:matrix_with_unsorted_columns"); }
		ctx.crumb("nnls|%s|n=%d", solver.c_str(), p.n);
		G.qr_cap = 2000 + 400LL * p.n;
		SchedOutcome o = Sched::run(sc, &ctx, [&]() {
			int vb = getenv("PSV_VERBOSE") ? 1 : 0;
			if (solver == "block3") xr = nnls_normal_block3(A, b, vb, &c);
			else if (solver == "block") xr = nnls_normal_block(A, b, vb, &c);
			else if (solver == "updown") xr = nnls_normal_block_updown(A, b, vb, &c);
			else if (solver == "lh_normal") xr = nnls_lawson_hanson(A, b, prob.getd("lh_tol", 0), 0, (int)prob.geti("lh_maxiter", 0), 0, 1, vb, &c);
			else xr = nnls_lawson_hanson(A, b, prob.getd("lh_tol", 0), 0, (int)prob.geti("lh_maxiter", 0), 0, 0, 0, &c);
		});
		std::string what = solver;
		if (solver == "lh_normal" || solver == "lh_ls")
			what += std::string(prob.getd("lh_tol", 0) == 0 ? "|tol0" : "|tolpos") + (prob.geti("lh_maxiter", 0) == 0 ? "|unlimited|" : "|limited|") + prob.gets("kind");
		report_outcome(ctx, o, what);
		if (o.kind != SchedOutcome::OK) return;
		if (!xr) { ctx.violate("C11|returned_null|" + solver, "solver returned NULL"); cholmod_l_finish(&c); return; }
		std::vector<double> x((double *)xr->x, (double *)xr->x + p.n);
		// SuiteSparseQR (Lawson-Hanson) goes through LAPACK/BLAS: its last bits are not logged
		if (solver != "lh_normal" && solver != "lh_ls") for (int i = 0; i < p.n; i++) ctx.log.ev("x[%d]=%a", i, x[(size_t)i]);
		double tol_abs = solver == "block3" ? p.n * DBL_EPSILON * 1e5 : (solver == "block" || solver == "updown") ? 1e-6 : std::max(1e-12, prob.getd("lh_tol", 0));
		Verdict v = check_nnls(p, x, solver, solver == "block3" || solver == "lh_normal" || solver == "lh_ls", tol_abs);
		ctx.count("solver:" + solver);
		std::string capped;
		// BLOCK3 stops after 120 outer iterations, each of which updates the factor at least once
		if (solver == "block3") capped = G.n_modify_factor >= 120 ? "|at_iteration_cap" : "|converged";
		// the two block-pivoting solvers give up silently after 3n iterations (known finding F-C11-blockpivot-itercap,
		// listed per size class and system family so that a cap hit anywhere else is still reported)
		std::string size_class_s = std::string(p.n <= 4 ? "|n<=4|" : p.n <= 12 ? "|n=5..12|" : p.n <= 24 ? "|n=13..24|" : p.n <= 30 ? "|n=25..30|" : "|n>30|") + prob.gets("kind");
		const char *size_class = size_class_s.c_str();
		if (solver == "updown") capped = G.n_modify_factor >= 3 * p.n ? std::string("|at_iteration_cap") + size_class : "|converged";
		if (solver == "block") capped = G.n_cholesky_solve >= 3 * p.n ? std::string("|at_iteration_cap") + size_class : "|converged";
		if (solver == "lh_normal" || solver == "lh_ls") capped = (prob.geti("lh_maxiter", 0) > 0 && G.n_qr >= prob.geti("lh_maxiter", 0)) ? "|at_iteration_cap" : "|converged";
		if (!capped.empty() && capped != "|converged") ctx.count("probe:solver_stopped_at_iteration_cap");
		if (!v.ok) ctx.violate("C11|" + v.what + "|" + solver + capped, v.detail + " (kind=" + prob.gets("kind") + ", n=" + std::to_string(p.n) + ")");
		// schedule independence of the whole solve (C12 oracle 6): every line search by the sequential model
		if (solver == "block3" && G.line_searches > 0) {
			// a fresh cholmod_common: modify_factor steers by the flop counts the previous solve left behind
			cholmod_common c2; cholmod_l_start(&c2);
			cholmod_sparse *A2 = dense_to_sparse_full(p.A, p.n, &c2); cholmod_dense *b2 = vec_to_dense(p.b, &c2), *x2 = nullptr;
			if (prob.gets("storage", "sorted") == "unsorted") shuffle_columns(A2, (uint64_t)strtoull(prob.gets("pseed", "1").c_str(), nullptr, 16));
			G.canonical_only = true;
			SchedConfig s2; s2.policy = "oldest";
			SchedOutcome o2 = Sched::run(s2, nullptr, [&]() { x2 = nnls_normal_block3(A2, b2, 0, &c2); });
			G.canonical_only = false;
			if (o2.kind == SchedOutcome::OK && x2) {
				for (int i = 0; i < p.n; i++)
					if (!same_bits(((double *)x2->x)[i], x[(size_t)i])) {
						char d[200]; snprintf(d, sizeof d, "x[%d]=%a under the schedule, %a with every line search under the canonical schedule", i, x[(size_t)i], ((double *)x2->x)[i]);
						ctx.violate("C12|schedule_dependent_result|block3", d); break;
					}
				cholmod_l_free_dense(&x2, &c2);
			}
			cholmod_l_free_sparse(&A2, &c2); cholmod_l_free_dense(&b2, &c2);
			cholmod_l_finish(&c2);
		}
		if (G.line_searches > 0) ctx.count("probe:solve_with_line_search");
		cholmod_l_free_dense(&xr, &c); cholmod_l_free_sparse(&A, &c); cholmod_l_free_dense(&b, &c);
		cholmod_l_finish(&c);
		(void)prop;
		if (o.preemptions > 0 || o.spurious_delivered > 0 || solver != "block3") ctx.seen("nontrivial", hash_json(plan));
	}

	void exec_fit(const Json &plan, const Json &prob, const SchedConfig &sc, RunCtx &ctx, const std::string &prop) {
		FitProblem p = make_fit(prob);
		FitResult fr;
		std::unique_ptr<photospline::splinetable<>> table;
		ctx.crumb("fit|ndim=%u|monodim=%u", p.ndim, p.monodim);
		SchedOutcome o = Sched::run(sc, &ctx, [&]() { fr = run_fit(p, &table); });
		report_outcome(ctx, o, "fit");
		if (o.kind != SchedOutcome::OK) return;
		if (!fr.ok) { ctx.violate(prop + "|fit_failed|monotonic", "fit threw: " + fr.err); return; }
		for (size_t k = 0; k < fr.coef.size(); k++) ctx.log.ev("c[%zu]=%a", k, (double)fr.coef[k]);
		ctx.count("fit_line_searches", G.line_searches);
		// BLOCK3 gives up after 120 outer iterations (each updates the factor at least once)
		bool capped1 = G.n_modify_factor >= 120;
		if (capped1) ctx.count("probe:fit_solver_stopped_at_iteration_cap");
		if (G.line_searches > 0) ctx.count("probe:fit_with_line_search");
		ctx.count("fits_by_data:" + prob.gets("data"));
		if (G.line_searches > 0) ctx.count("fits_with_ls_by_data:" + prob.gets("data"));
		int64_t ls = G.line_searches;
		// --- C12 oracle 6: same coefficients when every line search is done by the sequential model
		{
			G.canonical_only = true; G.line_searches = 0;
			FitResult fr2;
			SchedConfig s2; s2.policy = "oldest";
			SchedOutcome o2 = Sched::run(s2, nullptr, [&]() { fr2 = run_fit(p); });
			G.canonical_only = false;
			if (o2.kind == SchedOutcome::OK && fr2.ok) {
				for (size_t k = 0; k < fr.coef.size(); k++)
					if (!same_bits(fr.coef[k], fr2.coef[k])) {
						char d[200]; snprintf(d, sizeof d, "coefficient %zu = %a under the schedule, %a with every line search under the canonical schedule", k, (double)fr.coef[k], (double)fr2.coef[k]);
						ctx.violate("C12|schedule_dependent_result|fit", d); break;
					}
			}
		}
		// "the same coefficients" across worker counts can only mean "up to the rounding the conditioning
		// allows": the worker count legitimately steers modify_factor between up/down-dates and
		// refactorisation. A penalty weight s makes the system's condition number grow like s, so the
		// comparison is 1e-5 for s<=1, 1e-4 for s<=1e3 and is not made for s=1e6.
		double smooth_w = prob.getd("smooth", 0);
		double xtol = smooth_w <= 1 ? 1e-5 : 1e-4;
		if (plan.getb("cross_workers") && G.workers != 1 && smooth_w <= 1e3) {
			int save = psv_env_threads; psv_env_threads = 1;
			G.canonical_only = true; G.n_modify_factor = 0;
			FitResult fr3;
			SchedConfig s3; s3.policy = "oldest";
			SchedOutcome o3 = Sched::run(s3, nullptr, [&]() { fr3 = run_fit(p); });
			G.canonical_only = false; psv_env_threads = save;
			if (o3.kind == SchedOutcome::OK && fr3.ok) {
				double cmax = 0; for (float v : fr.coef) cmax = std::max(cmax, (double)std::fabs(v));
				for (size_t k = 0; k < fr.coef.size(); k++)
					if (std::fabs((double)fr.coef[k] - (double)fr3.coef[k]) > xtol * cmax + 1e-30) {
						char d[200]; snprintf(d, sizeof d, "coefficient %zu = %.9g with %d workers, %.9g with 1 worker", k, (double)fr.coef[k], G.workers, (double)fr3.coef[k]);
						ctx.violate(std::string("C12|worker_count_dependent_result|fit|") + ((capped1 || G.n_modify_factor >= 120) ? "solver_at_iteration_cap" : "converged"), d); break;
					}
				ctx.count("probe:cross_worker_count_compared");
			}
		}
		// --- C10: monotone along monodim
		check_monotone(p, fr, *table, ctx, capped1);
		check_against_unconstrained(p, fr, ctx, capped1);
		if (o.preemptions > 0 || o.spurious_delivered > 0 || ls > 0) ctx.seen("nontrivial", hash_json(plan));
	}

	// C10, second sentence, against the library's own unconstrained fit of the same problem: when that
	// solution is non-negative and non-decreasing along monodim *with margin*, the constraint is inactive
	// and the monotonic fit must return the same coefficients up to rounding.
	void check_against_unconstrained(const FitProblem &p, const FitResult &fr, RunCtx &ctx, bool capped) {
		double smax = 0;
		for (double v : p.smoothing) smax = std::max(smax, v);
		if (smax > 1e3) return;                       // conditioning: see DESIGN 11.2
		FitProblem q = p;
		q.monodim = photospline::splinetable<>::no_monodim;
		FitResult pl;
		G.canonical_only = true;
		SchedConfig s2; s2.policy = "oldest";
		SchedOutcome o2 = Sched::run(s2, nullptr, [&]() { pl = run_fit(q); });
		G.canonical_only = false;
		if (o2.kind != SchedOutcome::OK || !pl.ok || pl.coef.size() != fr.coef.size()) return;
		uint32_t md = p.monodim;
		uint64_t n = fr.naxes[md], st = fr.strides[md];
		double cmax = 0;
		for (float v : pl.coef) { if (!std::isfinite(v)) return; cmax = std::max(cmax, (double)std::fabs(v)); }
		if (cmax == 0) return;
		double margin = 2e-2 * cmax;
		for (size_t base = 0; base < pl.coef.size(); base++) {
			if ((base / st) % n != 0) continue;
			if (pl.coef[base] < margin) return;
			for (uint64_t j = 1; j < n; j++) if (pl.coef[base + j * st] - pl.coef[base + (j - 1) * st] < margin) return;
		}
		ctx.count("probe:compared_with_unconstrained_fit");
		bool other_dim_penalised = false;
		for (uint32_t dd = 0; dd < p.ndim; dd++) {
			double sv = p.smoothing.size() > 1 ? p.smoothing[dd] : p.smoothing[0];
			if (dd != md && sv != 0) other_dim_penalised = true;
		}
		double worst = 0; size_t wi = 0;
		for (size_t k = 0; k < fr.coef.size(); k++) { double dlt = std::fabs((double)fr.coef[k] - (double)pl.coef[k]); if (dlt > worst) { worst = dlt; wi = k; } }
		ctx.stats->max(other_dim_penalised ? "unconstrained_diff_e6_otherdim" : "unconstrained_diff_e6", (int64_t)(1e6 * worst / cmax));
		if (worst > 2e-3 * cmax) {
			char d[260];
			snprintf(d, sizeof d, "the unconstrained fit is non-negative and increasing along dimension %u with margin, yet the monotonic fit differs: coefficient %zu is %.9g instead of %.9g (max|c|=%.4g)",
			         md, wi, (double)fr.coef[wi], (double)pl.coef[wi], cmax);
			ctx.violate(std::string("C10|differs_from_unconstrained_fit|fit|") + (capped ? "solver_at_iteration_cap" : "converged") + (other_dim_penalised ? "|other_dimension_penalised" : "|penalty_only_along_monodim_or_none"), d);
		}
	}

	void check_monotone(const FitProblem &p, const FitResult &fr, const photospline::splinetable<> &t, RunCtx &ctx, bool capped) {
		uint32_t md = p.monodim;
		uint64_t n = fr.naxes[md], st = fr.strides[md];
		size_t total = fr.coef.size();
		double cmax = 0;
		for (float v : fr.coef) {
			if (!std::isfinite(v)) {
				// what kind of system it was: factorisation strategy, where the penalty sits, how heavy it is
				double smax = 0, smono = p.smoothing.size() > 1 ? p.smoothing[md] : (p.smoothing.empty() ? 0 : p.smoothing[0]);
				for (double sv : p.smoothing) smax = std::max(smax, sv);
				std::string pen = smax == 0 ? "unpenalised" : (p.smoothing.size() > 1 && smono == 0) ? "monodim_unpenalised" : "monodim_penalised";
				std::string heavy = smax >= 1e5 ? "smooth>=1e5" : smax >= 1e3 ? "smooth>=1e3" : smax >= 1e1 ? "smooth>=1e1" : "smooth<1e1";
				ctx.violate(std::string("C10|nonfinite_coefficient|fit|") + (psv_cholmod_mode == CHOLMOD_SIMPLICIAL ? "simplicial" : "supernodal_allowed") + "|" + pen + "|" + heavy, "a fitted coefficient is not finite");
				return;
			}
			cmax = std::max(cmax, (double)std::fabs(v));
		}
		for (size_t base = 0; base < total; base++) {
			if ((base / st) % n != 0) continue;          // only slice origins along monodim
			if (fr.coef[base] < 0) {
				char d[160]; snprintf(d, sizeof d, "first coefficient of slice at flat index %zu is %.9g < 0", base, (double)fr.coef[base]);
				ctx.violate("C10|negative_first_coefficient|fit", d); return;
			}
			for (uint64_t j = 1; j < n; j++)
				if (fr.coef[base + j * st] < fr.coef[base + (j - 1) * st]) {
					char d[200]; snprintf(d, sizeof d, "coefficients decrease along dimension %u: c[%llu]=%.9g < c[%llu]=%.9g (slice at %zu)", md, (unsigned long long)j,
					                      (double)fr.coef[base + j * st], (unsigned long long)(j - 1), (double)fr.coef[base + (j - 1) * st], base);
					ctx.violate("C10|coefficients_decrease|fit", d); return;
				}
		}
		ctx.count("probe:monotone_checked");
		// derivative along monodim at points of the fully supported region
		Rng r(fnv1a(&cmax, sizeof cmax), "evalpoints");
		std::vector<double> x(p.ndim); std::vector<int> cen(p.ndim);
		double minspan = 1e300;
		for (size_t j = p.order[md]; j + 1 <= (size_t)n; j++) { double s = p.knots[md][j + 1] - p.knots[md][j]; if (s > 0) minspan = std::min(minspan, s); }
		for (int k = 0; k < 24; k++) {
			for (uint32_t dd = 0; dd < p.ndim; dd++) {
				double lo = p.knots[dd][p.order[dd]], hi = p.knots[dd][fr.naxes[dd]];
				x[dd] = lo + (hi - lo) * (k == 0 ? 0.0 : k == 1 ? 0.999999 : r.unit());
			}
			if (!t.searchcenters(x.data(), cen.data())) continue;
			double dv = t.ndsplineeval(x.data(), cen.data(), 1 << md);
			double tol = 1e-4 * (cmax + 1e-30) * (double)(p.order[md] + 1) / minspan;
			if (dv < -tol) {
				char d[200]; snprintf(d, sizeof d, "d/dx_%u = %.9g < -%.3g at evaluation point %d", md, dv, tol, k);
				ctx.violate("C10|negative_derivative|fit", d); return;
			}
			ctx.count("derivative_points");
		}
		// constraint-inactive clause: own dense weighted least squares on the T-spline basis
		if (p.expect_inactive && fr.coef.size() <= 64) {
			size_t nc = fr.coef.size(), rows = p.values.size();
			std::vector<LD> N((size_t)nc * nc, 0), rhs(nc, 0);
			std::vector<double> row(nc);
			for (size_t rr = 0; rr < rows; rr++) {
				// tensor-product T-basis row: B_j along other dims, sum_{j>=i} B_j along monodim
				for (size_t cidx = 0; cidx < nc; cidx++) {
					double v = 1;
					for (uint32_t dd = 0; dd < p.ndim; dd++) {
						size_t j = (cidx / fr.strides[dd]) % fr.naxes[dd];
						double xx = p.coords[dd][p.idx[dd][rr]];
						double bb;
						if (dd == md) { bb = 0; for (size_t jj = j; jj < fr.naxes[dd]; jj++) bb += bspl(p.knots[dd], (int)jj, (int)p.order[dd], xx); }
						else bb = bspl(p.knots[dd], (int)j, (int)p.order[dd], xx);
						v *= bb;
						if (v == 0) break;
					}
					row[cidx] = v;
				}
				LD w = p.weights[rr];
				for (size_t a = 0; a < nc; a++) {
					if (row[a] == 0) continue;
					rhs[a] += w * row[a] * p.values[rr];
					for (size_t b2 = 0; b2 < nc; b2++) N[a * nc + b2] += w * row[a] * row[b2];
				}
			}
			std::vector<LD> z;
			if (chol_solve(N, rhs, (int)nc, z)) {
				LD zmin = 1e300L, zmax = 0;
				for (auto v : z) { zmin = std::min(zmin, v); zmax = std::max(zmax, fabsl(v)); }
				if (zmin > 1e-3L * zmax) {
					// unconstrained optimum is strictly inside the cone: the monotone fit must reproduce it
					std::vector<double> cref(nc, 0);
					for (size_t cidx = 0; cidx < nc; cidx++) {
						size_t j = (cidx / st) % n;
						LD s = 0;
						for (size_t jj = 0; jj <= j; jj++) s += z[cidx - j * st + jj * st];
						cref[cidx] = (double)s;
					}
					for (size_t cidx = 0; cidx < nc; cidx++)
						if (std::fabs(cref[cidx] - (double)fr.coef[cidx]) > 1e-4 * (cmax + 1e-30)) {
							char d[240]; snprintf(d, sizeof d, "unconstrained least-squares solution is non-negative and increasing with margin, yet coefficient %zu is %.9g instead of %.9g", cidx, (double)fr.coef[cidx], cref[cidx]);
							ctx.violate(std::string("C10|inactive_constraint_changes_fit|fit|") + (capped ? "solver_at_iteration_cap" : "converged"), d); return;
						}
					ctx.count("probe:inactive_constraint_compared");
				}
			}
		}
	}

	std::vector<Json> simplify(const Json &plan, const Json &aux) override {
		std::vector<Json> out;
		// 1. an explicit form of the schedule actually taken
		if (plan["schedule"].gets("policy") != "explicit" && aux.has("trace")) {
			Json c = plan;
			Json s = Json::object();
			s["policy"] = Json("explicit"); s["seed"] = Json("0"); s["spurious"] = Json(false);
			s["step_budget"] = plan["schedule"]["step_budget"];
			s["explicit"] = aux["trace"];
			c["schedule"] = s;
			out.push_back(c);
			return out;    // get onto the explicit schedule first
		}
		// 2. fewer workers, smaller problem
		int w = (int)plan.geti("workers", 1);
		if (w > 1) { Json c = plan; c["workers"] = Json(w > 4 ? w / 2 : w - 1); out.push_back(c); }
		if (plan["problem"].has("n") && plan["problem"].geti("n") > 1) { Json c = plan; c["problem"]["n"] = Json(plan["problem"].geti("n") - 1); out.push_back(c); }
		if (plan["problem"].geti("extra") > 0) { Json c = plan; c["problem"]["extra"] = Json(0); out.push_back(c); }
		if (plan.getb("affinity_fails")) { Json c = plan; c["affinity_fails"] = Json(false); out.push_back(c); }
		if (plan["problem"].has("storage")) { Json c = plan; c["problem"].erase("storage"); out.push_back(c); }
		if (plan["problem"].has("wscale_exp")) { Json c = plan; c["problem"].erase("wscale_exp"); out.push_back(c); }
		if (plan["problem"].has("matrix_scale_exp")) { Json c = plan; c["problem"].erase("matrix_scale_exp"); out.push_back(c); }
		if (plan["problem"].has("unit_exp")) { Json c = plan; c["problem"].erase("unit_exp"); out.push_back(c); }
		if (plan.gets("cholmod", "simplicial") != "simplicial") { Json c = plan; c["cholmod"] = Json("simplicial"); out.push_back(c); }
		if (plan.has("env") && (plan["env"].gets("form", "both") != "both" || plan["env"].geti("style", 0))) { Json c = plan; c.erase("env"); out.push_back(c); }
		if (plan.geti("ncpus", 0) > 0 && plan["env"].gets("form", "both") != "neither") { Json c = plan; c["ncpus"] = Json(0); out.push_back(c); }
		if (plan.getb("cross_workers")) { Json c = plan; c["cross_workers"] = Json(false); out.push_back(c); }
		// 3. explicit schedule: truncate, drop spurious wake-ups, remove preemptions
		if (plan["schedule"].gets("policy") == "explicit") {
			const auto &ex = plan["schedule"]["explicit"].a;
			size_t n = ex.size();
			for (size_t cut : {n / 2, n * 3 / 4, n - 1})
				if (cut < n) { Json c = plan; c["schedule"]["explicit"].a.resize(cut); out.push_back(c); }
			for (size_t k = 0; k < n; k++)
				if (ex[k].integer() < 0) { Json c = plan; auto &v = c["schedule"]["explicit"].a; v.erase(v.begin() + (long)k); out.push_back(c); }
			// replace a context switch by "keep running the previous fiber" (at most 60 candidates per round)
			int made = 0;
			for (size_t k = 1; k < n && made < 60; k++)
				if (ex[k].integer() >= 0 && ex[k - 1].integer() >= 0 && ex[k].integer() != ex[k - 1].integer()) {
					Json c = plan; c["schedule"]["explicit"].a[k] = ex[k - 1]; out.push_back(c); made++;
				}
		}
		return out;
	}
};

} // namespace

int main(int argc, char **argv) {
	SchedHarness h;
	return harness_main(argc, argv, h);
}
