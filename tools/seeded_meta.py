#!/usr/bin/env python3
"""tools/seeded_meta.py <id> <PROP> <needs-text> <detected: yes|no> <signatures/comment>  -> seeded/<id>/meta.json"""
import json, sys, os
sid, prop, needs, detected, note = sys.argv[1:6]
d = "/verif/seeded/" + sid
log = open(d + "/confirm.log").read().strip().splitlines()[-1] if os.path.exists(d + "/confirm.log") else ""
meta = {
    "id": sid, "breaks_property": prop, "needs_to_manifest": needs,
    "origin": "fresh sub-agent given only the property text and a scratch worktree",
    "confirmed": {"how": "tools/confirm_seeded.sh in the sub-agent's scratch worktree: patch applies at /repo HEAD, project builds, existing ctest suite passes with the change, demonstration passes without and fails with the change", "result_line": log},
    "checks_run": "tools/run_seeded.sh seeded/%s/patch.diff %s quick (scratch worktree of /repo + private build dir; /repo untouched)" % (sid, prop),
    "detected_by_quick_check": detected == "yes",
    "detection": note,
}
json.dump(meta, open(d + "/meta.json", "w"), indent=1)
print("wrote", d + "/meta.json")
