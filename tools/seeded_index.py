#!/usr/bin/env python3
"""Regenerate seeded/INDEX.md from seeded/*/meta.json."""
import json, glob, os
rows = []
for f in sorted(glob.glob("/verif/seeded/*/meta.json")):
    m = json.load(open(f))
    rows.append((m["id"], m["breaks_property"], "yes" if m.get("detected_by_quick_check") else "NO", m["needs_to_manifest"], m["detection"]))
with open("/verif/seeded/INDEX.md", "w") as o:
    o.write("# Seeded changes (sub-agent produced, confirmed) and the quick check that catches them\n\n")
    o.write("| id | property | caught by quick | needs in order to manifest | detection |\n|---|---|---|---|---|\n")
    for r in rows:
        o.write("| %s | %s | %s | %s | %s |\n" % tuple(x.replace("|", "\\|") for x in r))
print(len(rows), "entries")
