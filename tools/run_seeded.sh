#!/bin/bash
# Run the checks of a property against a seeded defect WITHOUT touching /repo:
#   tools/run_seeded.sh <patch.diff> <PROP> [quick|thorough]
# A scratch worktree of /repo's HEAD gets the patch, the harness is built in a
# private build directory, and both are removed afterwards. Exit status is the
# check's (1 = the seeded defect was detected).
set -u
patch=$(readlink -f "$1"); prop=$2; tier=${3:-quick}
tag=$(echo "$patch" | md5sum | cut -c1-8)
V=${PSV_VERIF:-/verif}
wt=/tmp/psv-seeded-$tag-$$; bd=$V/build-seeded-$tag-$$
git -C /repo worktree add -q --detach "$wt" ${PSV_BASE_COMMIT:-HEAD} || exit 3
trap 'git -C /repo worktree remove --force "$wt" >/dev/null 2>&1; rm -rf "$bd"' EXIT
git -C "$wt" apply "$patch" || { echo "patch does not apply"; exit 3; }
cd $V
PSV_REPO=$wt PSV_BUILD=$bd PSV_EVIDENCE_DIR=$bd/evidence PSV_REPLAY_DIR=$bd/replays ./check "$prop" "$tier"
rc=$?
# keep the replay files of a detection next to the seeded change if asked to
if [ -n "${PSV_KEEP_REPLAYS:-}" ] && [ -d "$bd/replays" ]; then mkdir -p "$PSV_KEEP_REPLAYS"; cp "$bd"/replays/*.json "$PSV_KEEP_REPLAYS"/ 2>/dev/null; fi
exit $rc
