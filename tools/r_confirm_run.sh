#!/bin/bash
# tools/r_confirm_run.sh <PROP> <suffix> <mutant>...   : confirm each sub-agent change of /tmp/psv-<suffix>-<PROP> and run the property's quick check on it
prop=$1; suf=$2; shift 2
for m in "$@"; do
  id=$prop-$m-$suf
  if [ ! -f /verif/seeded/$id/confirm.log ] || ! grep -q "demo_with=" /verif/seeded/$id/confirm.log; then
    /verif/tools/confirm_seeded.sh /tmp/psv-$suf-$prop $m $id $prop 2>&1 | tail -1
  fi
  PSV_KEEP_REPLAYS=/verif/seeded/$id/replays /verif/tools/run_seeded.sh /verif/seeded/$id/patch.diff $prop quick > /verif/seeded/$id/check.log 2>&1
  echo "$id check_rc=$? $(grep -c '^VIOLATION' /verif/seeded/$id/check.log) violation lines"
  grep "signature:" /verif/seeded/$id/check.log | cut -c1-220 | head -8
done
