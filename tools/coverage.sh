#!/bin/bash
# Line coverage of the repository's sources under the simulated runs (a reach measure, not a check):
#   tools/coverage.sh [scale]        -> notes/coverage.txt
# Builds an ASan+gcov variant of the three harnesses from /repo's working tree in a scratch
# directory, runs a slice of every property's quick-tier run space (scale 1 = about a tenth of
# the quick tier), and summarises with gcovr. The scratch directory is removed afterwards.
set -u
scale=${1:-1}
B=/tmp/psv-cov-$$
cd /verif
make -s -j16 B=$B SAN="-fsanitize=address,undefined -fno-sanitize-recover=undefined -fno-omit-frame-pointer --coverage" OPT="-O0 -g" all 2>&1 | grep -v warning | grep -i error
run() { # harness property runs
  $B/$1.asan run --prop $2 --tier quick --seed 1 --from 0 --to $(( $3 * scale )) --distinct-out $B/d.$2 --crumb $B/c.$2 >/dev/null 2>&1
}
run psv_sched C10 1000 & run psv_sched C11 3000 & run psv_sched C12 3000 &
run psv_io C06 1500 & run psv_io C07 3000 & run psv_io C08 300 &
run psv_hist C16 3000 & run psv_hist C18 1500 & run psv_hist C19 600 & run psv_hist C20 3000 &
wait
{
  echo "# line coverage of /repo sources under the simulated runs (tools/coverage.sh $scale; /repo $(git -C /repo rev-parse --short HEAD))"
  echo "# runs: C10 $((1000*scale)) C11 $((3000*scale)) C12 $((3000*scale)) C06 $((1500*scale)) C07 $((3000*scale)) C08 $((300*scale)) C16 $((3000*scale)) C18 $((1500*scale)) C19 $((600*scale)) C20 $((3000*scale))"
  gcovr -r / --object-directory $B $B --filter '/repo/(include|src)/' 2>/dev/null | sed -n '/^File/,$p'
} > notes/coverage.txt
rm -rf $B
tail -4 notes/coverage.txt
