#!/bin/bash
# Confirm a sub-agent's seeded change in its scratch worktree and file it under /verif/seeded/<id>/:
#   tools/confirm_seeded.sh <worktree> <mutant-dir-name> <seeded-id> <PROP>
# Confirms: patch applies; build ok; existing ctest suite passes with it; demonstration FAILS with it
# and PASSES without it. Writes seeded/<id>/{patch.diff,demo files,confirm.log}; prints a one-line verdict.
wt=$1; mdir=$wt/mutants/$2; id=$3; prop=$4
out=/verif/seeded/$id; mkdir -p $out
log=$out/confirm.log; : > $log
cd $wt || exit 3
git checkout -q -- include src test ; git apply --check $mdir/patch.diff || { echo "$id: patch does not apply"; exit 3; }
# a build directory of our own (some worktrees carry a stale tracked _build configured for /repo)
B=_cbuild
[ -d $B ] || cmake -G Ninja -S . -B $B -DCMAKE_BUILD_TYPE=RelWithDebInfo >>$log 2>&1
cmake --build $B -- -k 0 >>$log 2>&1
echo "== demonstration WITHOUT the change" >>$log
( cd $mdir && timeout 900 bash ./run_demo.sh $wt/$B ) >>$log 2>&1; rc_clean=$?
git apply $mdir/patch.diff
cmake --build $B -- -k 0 >>$log 2>&1
echo "== existing test suite WITH the change" >>$log
ctest --test-dir $B -j8 --timeout 900 >>$log 2>&1; rc_tests=$?
echo "== demonstration WITH the change" >>$log
( cd $mdir && timeout 900 bash ./run_demo.sh $wt/$B ) >>$log 2>&1; rc_mut=$?
git checkout -q -- include src test
cmake --build $B -- -k 0 >>$log 2>&1
cp $mdir/patch.diff $out/patch.diff
mkdir -p $out/demo; cp -r $mdir/* $out/demo/ 2>/dev/null; rm -f $out/demo/patch.diff
echo "$id prop=$prop demo_without=$rc_clean tests_with=$rc_tests demo_with=$rc_mut" | tee -a $log
[ $rc_clean -eq 0 ] && [ $rc_tests -eq 0 ] && [ $rc_mut -ne 0 ]
