#!/bin/bash
# Sensitivity regression: run every seeded change through the quick check of the property it breaks.
#   tools/run_all_seeded.sh [tier]      -> seeded/RESULTS.txt ("<id> <PROP> detected|MISSED (exit code)")
tier=${1:-quick}; from=${2:-}
V=${PSV_VERIF:-/verif}
out=$V/seeded/RESULTS.txt; [ -n "$from" ] || : > $out
export PSV_NO_SHRINK=1     # detection only: the replay files of each detection are already under seeded/<id>/replays
for d in $V/seeded/*/; do
  id=$(basename $d); [ -f $d/meta.json ] || continue
  [ -n "$from" ] && [[ "$id" < "$from" ]] && continue
  prop=$(python3 -c "import json;print(json.load(open('$d/meta.json'))['breaks_property'])")
  PSV_VERIF=$V $V/tools/run_seeded.sh $d/patch.diff $prop $tier > $V/seeded/.run.log 2>&1; rc=$?
  sigs=$(grep -c "signature:" $V/seeded/.run.log)
  # exit 1 = violation reported; exit 2 with signature lines = violation reported and the run was additionally
  # non-reproducible (e.g. a change that makes results depend on uninitialised memory): both are alarms
  if [ $rc -eq 1 ] || { [ $rc -eq 2 ] && [ $sigs -gt 0 ]; }; then echo "$id $prop detected (exit $rc, $sigs signature lines)" | tee -a $out
  elif [ $rc -eq 3 ]; then echo "$id $prop NOT-APPLICABLE (patch does not apply at HEAD: obsolete after a later fix)" | tee -a $out
  else echo "$id $prop MISSED (exit $rc)" | tee -a $out; fi
done
rm -f $V/seeded/.run.log
