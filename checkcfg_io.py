# Check configuration of the simulated-disk harness (C06, C07, C08); see checkcfg.py for the format.

IO_COMPONENTS = {
    "real": [
        "include/photospline/detail/fitsio.h (read_fits, read_fits_mem, read_fits_core, write_fits, write_fits_mem, write_fits_core), splinetable.h, aux.h",
        "src/core/fitsio.cpp, src/cinter/splinetable.cpp (readsplinefitstable(_mem), writesplinefitstable(_mem))",
        "cfitsio 4.2 (static libcfitsio.a) including its disk and memory drivers and record cache", "glibc stdio buffering on fopencookie streams",
        "evaluation entry points (searchcenters, ndsplineeval, gradient, deriv, evaluator) for the post-read battery",
    ],
    "stub": [
        "kernel file object behind /sim/ paths: in-memory files, op log, crash images, injected errno faults / quota / short transfers (link-time --wrap of fopen64, remove, fileno, ftruncate64; _IO_new_file_write's retry loop re-stated in the cookie write)",
        "allocator behind splinetable<Alloc>: SimAlloc ledger (ownership after failed reads)",
        "independent FITS writer/parser (sim/fitscodec) as the second implementation of the documented layout",
    ],
    "plain_sampling": [],
}

IO_ASSUME = [
    "sampling of tables, fault positions and corruption sequences: a clean batch is evidence, not proof; within one C08 run the crash-point set of the recorded write is enumerated up to a per-tier cap",
    "crash model = prefix of the kernel-level operation log plus a byte cut inside the next write (what C08 states); reordering of unsynced writes by a power loss is not generated",
    "the simulated kernel file follows POSIX semantics for write/read/lseek/ftruncate/unlink; glibc and cfitsio above it are the real code",
    "memory-file growth failures (realloc) are implemented but not generated: cfitsio's state after a failed realloc depends on heap history, which would make runs irreproducible",
]


def lane(name, binary, quick, thorough, offset=0, chunk=200):
    return {"name": name, "bin": binary, "runs": {"quick": quick, "thorough": thorough}, "offset": offset, "chunk": chunk}


IO_PROPS = {
    "C08": {
        "targets": ["io"],
        "level": "fault_enumeration",
        "lanes": [lane("asan", "psv_io.asan", 1600, 40000, 0, 25)],
        "budget_s": {"quick": 50, "thorough": 800},
        "rule": "one run = one generated table (1-5 dims, 1..~390 FITS blocks, 0-40 aux keys), one stdio buffer size and short-transfer knob, written by write_fits or writesplinefitstable to the simulated disk; "
                "the fault-free operation log is recorded, then either every operation prefix and byte cuts (1, len/2, len-1, every 2880 boundary +-1, random) are materialised as crash images and read back, "
                "or single I/O faults (ENOSPC/EFBIG/EIO/EINTR/short-then-error/quota on writes, EIO/short/eof on reads, seek, close, remove, open; transient or persistent) are injected one per re-execution; "
                "non-trivial = plan hash of a run in which a fault fired or a crash image was examined; distinct = by plan hash; coverage.distinct.states = distinct (op kind, fault kind, outcome) tuples",
        "components": IO_COMPONENTS,
        "assumptions": IO_ASSUME,
        "expected_probes": ["header_block_inserted", "deferred_error_at_close", "short_write_looped", "crash_image_rejected", "crash_image_equal", "writer_reported_failure"],
    },
    "C07": {
        "targets": ["io"],
        "level": "exploration",
        "lanes": [lane("asan", "psv_io.asan", 9000, 400000, 0, 150)],
        "budget_s": {"quick": 50, "thorough": 800},
        "rule": "one run = a valid image (independent codec, library writer or shipped file) damaged by a seeded sequence of 0-4 storage corruptions (bit flips, overwrites, truncation, zeroed/dropped/duplicated/swapped "
                "2880-byte blocks, card edits of ORDERn/ORDER/NAXIS/NAXISn/BITPIX/EXTNAME/PERIODn, END removal, dropped/reordered/resized extensions, non-finite or unsorted knots, foreign FITS files), read by one of five readers "
                "(read_fits, read_fits_mem, splinetable(path), readsplinefitstable, readsplinefitstable_mem) optionally under read-time I/O faults; oracle A after a failure (empty, nothing owned, reusable, destructible), "
                "oracle B after a success (well-formed) and then the operation battery; non-trivial = plan hash of a run with at least one corruption applied or fault fired; distinct = by plan hash",
        "components": IO_COMPONENTS,
        "assumptions": IO_ASSUME,
        "expected_probes": ["failed_read_left_object_clean", "mem_read_probed_in_child", "read_hazard_probed_in_child"],
    },
    "C06": {
        "targets": ["io"],
        "level": "exploration",
        "lanes": [lane("asan", "psv_io.asan", 15000, 800000, 0, 250)],
        "budget_s": {"quick": 45, "thorough": 800},
        "rule": "one run = one generated table (1-9 dims, pairwise different axis lengths, orders 0-5, uniform/irregular/repeated knots, coefficient classes smooth/random/denormal/huge/-0/inf/NaN, explicit extents, "
                "0-50 aux keys, legacy single-ORDER / no-EXTENTS / no-PERIOD layouts, reversed extension order) taken through independent-writer -> read_fits -> write_fits/write_fits_mem (C++ and C interface) -> independent parser and re-read, "
                "under a random benign I/O configuration (stdio buffer size, short kernel writes/reads, chunked reads); plus the ten shipped files against golden digests; "
                "non-trivial = distinct (table shape class x I/O knob class) with a non-default knob or a special-value/legacy table; distinct = by plan hash",
        "components": IO_COMPONENTS,
        "assumptions": IO_ASSUME + ["periods are not part of C06's list and are generated exactly representable"],
        "expected_probes": ["golden_checked", "legacy_single_order", "legacy_no_extents", "legacy_no_periods", "nan_table_compared"],
    },
}
