# Per-property configuration of the check driver: which harness binaries
# ("lanes") run, how many simulated runs per tier, and the texts that go into
# the evidence file.  Run counts are upper bounds; the driver also enforces a
# wall-clock budget per tier and reports how many chunks the budget skipped.

SCHED_COMPONENTS = {
    "real": [
        "src/fitter/cholesky_solve.c (walk_descents, evaluate_descent, calc_residual, modify_factor, get_nthreads)",
        "src/fitter/nnls.c (all four solvers)", "src/fitter/glam.c, splineutil.c",
        "include/photospline/detail/fit.h via splinetable<>::fit, bspline_eval.h for the derivative probe",
        "CHOLMOD / SuiteSparseQR shared libraries (CHOLMOD forced to its simplicial code path, see assumptions)",
    ],
    "stub": [
        "pthread_create/join/exit/self, pthread_mutex_*, pthread_cond_*, sched_yield, sleep family -> cooperative fibers + seeded scheduler (sim/sched.cpp)",
        "getenv(GOTO_NUM_THREADS|OMP_NUM_THREADS) -> worker count from the plan; sched_setaffinity -> success or injected failure; clock() -> logical counter",
        "ThreadSanitizer runtime -> compile-only instrumentation of cholesky_solve.c/nnls.c feeding the simulator's happens-before detector (race lane)",
    ],
    "plain_sampling": [],
}

SCHED_ASSUME = [
    "exploration samples schedules (random / PCT / stall / sticky / newest / oldest policies, optional spurious wake-ups); a clean batch is evidence, not proof",
    "yield points are the pthread calls; code between two of them runs atomically, which is exact for data-race-free code and is what the happens-before detector checks separately",
    "accesses inside libcholmod are seen only as modelled at the call boundary (observed byte changes of cholmod_common = writes; argument arrays = reads/writes)",
    "CHOLMOD is forced to simplicial factorisation (wrapped cholmod_l_start) so that no OpenBLAS kernel, whose rounding depends on buffer alignment, makes a result depend on heap history",
    "asserts of the repository are enabled in the harness build (the shipped build defines NDEBUG)",
]

IO_COMPONENTS = {
    "real": [
        "include/photospline/detail/fitsio.h (read_fits, read_fits_mem, read_fits_core, write_fits, write_fits_mem, write_fits_core)",
        "src/core/fitsio.cpp, src/cinter/splinetable.cpp (C wrappers)",
        "cfitsio (static libcfitsio.a incl. its disk and memory drivers)", "glibc stdio buffering (fopencookie streams)",
    ],
    "stub": [
        "kernel file object under /sim/ (in-memory; op log, crash images, injected errno faults, quota); _IO_new_file_write's retry loop re-stated in the cookie write",
        "allocator behind splinetable<Alloc> -> SimAlloc ledger (C07)",
    ],
    "plain_sampling": [],
}

HIST_COMPONENTS = {
    "real": [
        "include/photospline/splinetable.h and detail/{aux,fitsio,fit,convolve,permute,grideval}.h instantiated with SimAlloc",
        "src/cinter/splinetable.cpp (C18)", "src/fitter/*.c (fit ops)", "cfitsio (static), glibc stdio",
    ],
    "stub": [
        "allocator behind splinetable<Alloc> -> SimAlloc ledger / failure injector / fixed arena",
        "kernel file object under /sim/ (read faults, write faults)",
    ],
    "plain_sampling": [],
}


def lane(name, binary, quick, thorough, offset=0, chunk=500):
    return {"name": name, "bin": binary, "runs": {"quick": quick, "thorough": thorough}, "offset": offset, "chunk": chunk}


PROPS = {
    "C12": {
        "targets": ["sched"],
        "level": "exploration",
        "lanes": [
            lane("asan", "psv_sched.asan", 24000, 2400000, 0, 400),
            lane("race", "psv_sched.race", 12000, 1200000, 1000000000, 400),
        ],
        "budget_s": {"quick": 45, "thorough": 780},
        "rule": "one run = one plan (line-search problem | NNLS system | whole monotonic fit; worker count 1..32; schedule policy + seed; "
                "spurious wake-ups / affinity failure knobs) derived from (VERIF_SEED, run index) and executed on fibers under the seeded scheduler; "
                "non-trivial = plan hash of a run in which at least one preemption or spurious wake-up happened, or a whole solve/fit went through at least one threaded line search; "
                "distinct = by plan hash; coverage.distinct.interleavings counts distinct schedule traces (hash of the (fiber, operation) sequence)",
        "components": SCHED_COMPONENTS,
        "assumptions": SCHED_ASSUME,
        "expected_probes": ["multi_block_search", "three_or_more_blocks", "more_workers_than_trial_steps", "no_step_reduced_residual",
                            "spurious_wakeup_delivered", "solve_with_line_search", "fit_with_line_search"],
    },
    "C11": {
        "targets": ["sched"],
        "level": "exploration",
        "lanes": [
            lane("asan", "psv_sched.asan", 20000, 2000000, 0, 400),
            lane("race", "psv_sched.race", 4000, 400000, 1000000000, 400),
        ],
        "budget_s": {"quick": 45, "thorough": 780},
        "rule": "one run = one generated SPD system (random / integer-exact / degenerate / badly scaled / sparse / T-spline-like; n<=12 checked against the optimum found by "
                "enumerating all 2^n passive sets in long double, larger n through the KKT residual) solved by nnls_normal_block3 on the simulated worker pool under a seeded schedule "
                "(70% of runs), or by one of the three unthreaded solvers (30%, reported under components.plain_sampling); non-trivial = plan hash of a run with at least one preemption "
                "or spurious wake-up, or of any plain-solver run; distinct = by plan hash",
        "components": dict(SCHED_COMPONENTS, plain_sampling=[
            "nnls_normal_block, nnls_normal_block_updown, nnls_lawson_hanson contain no thread, I/O or other nondeterminism: they run on the same generated systems against the same oracle, "
            "which is seeded sampling, not simulation; the claim rests on the threaded solver"]),
        "assumptions": SCHED_ASSUME + [
            "KKT tolerance: abs = solver's stated tolerance (n*eps*1e5 for BLOCK3, 1e-6 for the block-pivoting pair, the tolerance argument for Lawson-Hanson) scaled by (1+max|A|), plus 1e-7 relative to the magnitude of the summed terms; objective gap 1e-6*(1+|f*|)",
        ],
        "expected_probes": ["solve_with_line_search", "multi_block_search"],
    },
    "C10": {
        "targets": ["sched"],
        "level": "exploration",
        "lanes": [
            lane("asan", "psv_sched.asan", 10000, 400000, 0, 100),
            lane("race", "psv_sched.race", 2500, 100000, 1000000000, 100),
        ],
        "budget_s": {"quick": 45, "thorough": 780},
        "rule": "one run = one whole splinetable::fit(..., monodim) on a generated data set (increasing / noisy / decreasing / oscillating / constant / negative / step / random; 1..3 dims, "
                "every monodim, orders 1..4, weights ones/random/mixed, smoothing 0..1e6, 30% sparse grids) executed on the simulated worker pool under a seeded schedule; oracles: "
                "coefficients exactly non-decreasing along monodim with first >= 0, derivative >= -rounding at 24 points, own dense T-basis least squares for the constraint-inactive clause; "
                "non-trivial = plan hash of a run with a preemption, a spurious wake-up or at least one threaded line search; distinct = by plan hash",
        "components": SCHED_COMPONENTS,
        "assumptions": SCHED_ASSUME + [
            "penalty order is kept <= spline order and sparse data sets always carry smoothing >= 1e-2 (rank-deficient systems are outside what the solver documents)",
        ],
        "expected_probes": ["monotone_checked", "fit_with_line_search", "inactive_constraint_compared"],
    },
}

try:
    from checkcfg_io import IO_PROPS
    PROPS.update(IO_PROPS)
except ImportError:
    pass
try:
    from checkcfg_hist import HIST_PROPS
    PROPS.update(HIST_PROPS)
except ImportError:
    pass
