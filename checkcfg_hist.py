# Per-property configuration of the history harness psv_hist (C16, C18, C19, C20);
# imported by checkcfg.py. Same format as the entries there.

HIST_COMPONENTS = {
    "real": [
        "include/photospline/splinetable.h and detail/{aux,fitsio,fit,convolve,permute,grideval}.h instantiated with SimAlloc",
        "src/cinter/splinetable.cpp (C18)", "src/fitter/*.c (fit ops)", "cfitsio (static), glibc stdio",
    ],
    "stub": [
        "allocator behind splinetable<Alloc> -> SimAlloc ledger / failure injector / fixed arena",
        "kernel file object under /sim/ (read faults, write faults)",
    ],
    "plain_sampling": [],
}

HIST_ASSUME = [
    "histories are sampled (seeded generator over op kinds, arguments, objects and fault positions); a clean batch is evidence, not proof",
    "the reference is sim/model.h: an abstract table compared with the real object through its public getters only, plus the allocator ledger "
    "(the multiset of live block sizes must equal what the objects own according to the model: missing blocks = dangling members, extra blocks = abandoned storage)",
    "states whose continuation is undefined behaviour are recognised before the undefined step (object never touched again, history ends); "
    "defects that can only show as a crash are proven in a forked child (result cached per process) and never executed in the batch process",
    "damaged input images are used only when the reader itself survives them in a forked child (reader robustness is C07's subject)",
    "CHOLMOD is forced to its simplicial code path (wrapped cholmod_l_start) and the fitter runs with one line-search worker, so fitted numbers are a function of the plan",
    "convolutions of order-0 dimensions are not issued: convolve.cpp's factorial(0) loops 2^32 times and returns 0 (C14's subject, seconds per call)",
    "growth failures of cfitsio memory files (wrapped realloc) are not injected: cfitsio itself misbehaves non-reproducibly after a failed realloc",
    "asserts of the repository are enabled in the harness build (the shipped build defines NDEBUG)",
]


def lane(name, binary, quick, thorough, offset=0, chunk=500):
    return {"name": name, "bin": binary, "runs": {"quick": quick, "thorough": thorough}, "offset": offset, "chunk": chunk}


HIST_PROPS = {
    "C20": {
        "targets": ["hist"],
        "level": "fault_enumeration",
        "lanes": [lane("asan", "psv_hist.asan", 9000, 14000, 0, 100)],
        "budget_s": {"quick": 45, "thorough": 780},
        "rule": "one run = one history of 1..25 ops over 1..3 objects of splinetable<SimAlloc> (construct empty / from a /sim path / by stacking, read_fits, read_fits_mem "
                "(valid, damaged, missing; into empty or occupied), fit (valid, invalid arguments, over a populated object, monotonic), write_key/remove_key (valid, rejected), convolve, "
                "permuteDimensions (valid, invalid), move construction, move assignment (incl. self), operator== (incl. empty operands), write_fits/write_fits_mem, getters + evaluation battery, destroy). "
                "Pass 0 executes the history fault-free and records how many allocator and file events every op issues; every further pass re-executes the whole history with exactly one fault: "
                "thorough tier = every allocation position of every op (std::bad_alloc through the allocator), every read position x {EIO, premature EOF, short read} of every disk read, "
                "every write position x {ENOSPC, EIO} + close EIO + open EMFILE of every write_fits (enumerated, bounded by 1000 passes per history, counter enumeration_truncated when the bound bites); "
                "quick tier = the sampled faults attached to ops in the plan. After every op: outcome, ownership (ledger vs model), model comparison through the getters, bystander objects unchanged. "
                "non-trivial = plan hash of a run in which a fault fired or an op failed; distinct = by plan hash; coverage.distinct.states counts (model-state class, op, fault, outcome) tuples",
        "components": HIST_COMPONENTS,
        "assumptions": HIST_ASSUME,
        "expected_probes": ["failed_op_left_unchanged", "failed_op_left_empty", "move_self_assign", "moved_from_is_empty", "read_into_populated_refused",
                            "destroyed_clean", "convolved", "permutation_matches_model", "stacked_table_built", "monotonic_fit", "key_edit_on_empty_table",
                            "compare_both_empty", "damaged_image_accepted", "ctor_throw_clean"],
    },
    "C16": {
        "targets": ["hist"],
        "level": "exploration",
        "lanes": [lane("asan", "psv_hist.asan", 30000, 700000, 0, 400)],
        "budget_s": {"quick": 45, "thorough": 780},
        "rule": "one run = one history of up to 41 ops on one populated table: write_key<int|double|std::string|const char*>, remove_key, get_aux_value, read_key<int|double|string>, get_aux_key, "
                "get_naux_values and round trips (write_fits_mem->read_fits_mem or write_fits->read_fits on the simulated disk; the object is replaced by its re-read twin), over a per-run alphabet "
                "drawn from: short standard keys, HIERARCH keys of 9..100 characters (length limits 66/67/68/69), dash/underscore keys, reserved keywords (NAXIS[n], ORDER[n], TYPE, BITPIX, PERIODn, "
                "COMMENT, SIMPLE, EXTEND), lower-case / punctuated / blank-containing keys, structural FITS keywords (EXTNAME, END, HISTORY, CONTINUE, XTENSION, BSCALE, BZERO, BLANK, CHECKSUM, "
                "EXTVER, empty key); values int, double, strings (empty, maximal length for the key, one too long, 68, 69+, with quotes, leading/trailing blanks, numeric look-alikes); "
                "injected allocation failures in write_key/remove_key. Reference = insertion-ordered [(key,value)]. Acceptance is decided by the implementation and then binding. "
                "non-trivial = plan hash of a run with a round trip, a fired fault or a rejected op; distinct = by plan hash",
        "components": HIST_COMPONENTS,
        "assumptions": HIST_ASSUME + [
            "typed reads are judged only where the stored string denotes a number unambiguously ([+-]digits within int range; a finite decimal literal) or clearly does not; other strings are counted as unjudged",
            "round trips with keys outside the plain classes are first tried in a forked child (an EXTNAME card in the primary header can send the reader into undefined behaviour)",
        ],
        "expected_probes": ["roundtrip_with_keys", "roundtrip_all_entries_intact", "rejected_op_left_unchanged", "failed_op_left_unchanged", "overwrite_accepted", "insert_accepted",
                            "key_removed", "integer_recovered_exactly", "double_read_back", "typed_read_refused_non_number"],
    },
    "C19": {
        "targets": ["hist"],
        "level": "exploration",
        "lanes": [lane("asan", "psv_hist.asan", 4500, 100000, 0, 100)],
        "budget_s": {"quick": 45, "thorough": 780},
        "rule": "one run = one generated table file (1..6 dimensions, mixed orders 0..5, 0..50 auxiliary keys of all lengths incl. HIERARCH and literal cards, legacy layouts: single ORDER, no EXTENTS, "
                "no PERIOD) and a list of cases (n, d): n=1 (load only) and, for every dimension d, a convolution with n in 2..8 symmetric kernel knots. Per case: cap = estimateMemory(path, n, d); "
                "the ledger's arena gets capacity cap; splinetable<SimAlloc>(path) and convolve(d, kernel, n) run against it. Invariant at every allocator event: live bytes <= cap "
                "(a refused request is the violation; peak > cap likewise). The table object itself is not allocator demand; how much room was left is reported as statistics "
                "(c19:slack_*, max:c19_tightness_permille, probe estimate_too_small_if_object_counted). non-trivial = plan hash of a run with at least one convolution case; distinct = by plan hash",
        "components": HIST_COMPONENTS,
        "assumptions": HIST_ASSUME + [
            "the arena counts bytes only (no fragmentation model): 'a fixed-size arena of that size suffices' is checked as live bytes <= capacity at every event",
            "estimateMemory always adds 1..2 KiB of rounding slack, so defects smaller than that in its size model are invisible to the arena oracle; the slack histogram shows how close the runs get",
        ],
        "expected_probes": ["convolved_case", "load_only_case", "convolve_raised_peak", "many_aux_keys", "legacy_layout", "arena_peak_within_10pct_of_cap"],
    },
    "C18": {
        "targets": ["hist"],
        "level": "exploration",
        "lanes": [lane("asan", "psv_hist.asan", 6000, 180000, 0, 100)],
        "budget_s": {"quick": 45, "thorough": 780},
        "rule": "one run = one history of 1..30 calls over 1..3 `struct splinetable` handles (splinetable_init/free, readsplinefitstable (valid, damaged, missing; with read faults; into an occupied handle), "
                "readsplinefitstable_mem (valid, damaged, into an occupied handle), writesplinefitstable (with write faults), writesplinefitstable_mem, splinetable_get_key/read_key/write_key, all accessors, "
                "tablesearchcenters, ndsplineeval, ndsplineeval_gradient, ndsplineeval_deriv, splinetable_convolve, splinetable_glamfit (valid, bad arguments, over a populated handle, monotonic), "
                "splinetable_grideval + ndsparse_destroy, splinetable_permute (valid, invalid), splinetable_period) executed in lock-step with C++ twins (splinetable<SimAlloc>: a separate template "
                "instantiation). Per call: status != 0 <=> the twin threw / returned false; returned values, outputs, table state through the accessors and evaluation results bit-identical; files and "
                "memory buffers byte-identical; every C call runs inside try/catch (an exception arriving there crossed the boundary) and inside a heap-accounting bracket (sanitizer malloc/free hooks): "
                "blocks allocated by C calls and still allocated after a failed call / after ndsparse_destroy / after every handle was freed are leaks. The history is rehearsed once (unjudged) so that "
                "first-use allocations of the libraries cannot unbalance the books. Generator respects C-level preconditions (no accessor on a NULL or empty handle unless the wrapper checks). "
                "non-trivial = plan hash of a run in which a call failed or a fault fired; distinct = by plan hash",
        "components": HIST_COMPONENTS,
        "assumptions": HIST_ASSUME + [
            "allocation failure of the default allocator (operator new) is not injected: replacing operator new would switch off ASan's new/delete mismatch checks; "
            "therefore splinetable_convolve's missing try block cannot be observed dynamically",
            "evaluation points lie in the fully supported region, where results do not depend on the uninitialised padding slots around the knot vectors of default-allocator tables",
            "a handle whose table was fitted over a populated table is not written any more (its period array is stale and the writer reads beyond it)",
        ],
        "expected_probes": ["files_byte_identical", "buffers_byte_identical", "evaluations_bit_identical", "grid_results_identical", "accessors_compared", "read_replaced_occupied_handle",
                            "read_into_occupied_handle_refused", "history_heap_balanced", "monotonic_fit", "convolved"],
    },
}
