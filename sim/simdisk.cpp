// Simulated disk: see simdisk.h.
#ifndef _GNU_SOURCE
#define _GNU_SOURCE
#endif
#include "simdisk.h"
#include "prng.h"
#include <cerrno>
#include <cstdio>
#include <cstdlib>
#include <cstring>
#include <memory>
#include <cstdarg>
#include <fcntl.h>
#include <sys/stat.h>
#include <sys/types.h>
#include <unistd.h>

extern "C" {
FILE *__real_fopen64(const char *, const char *);
FILE *__real_fopen(const char *, const char *);
int __real_remove(const char *);
int __real_rename(const char *, const char *);
int __real_unlink(const char *);
int __real_access(const char *, int);
int __real_fileno(FILE *);
int __real_ftruncate64(int, off64_t);
int __real_ftruncate(int, off_t);
void *__real_realloc(void *, size_t);
int __real_open(const char *, int, ...);
int __real_open64(const char *, int, ...);
int __real_creat(const char *, mode_t);
ssize_t __real_read(int, void *, size_t);
ssize_t __real_write(int, const void *, size_t);
ssize_t __real_pread(int, void *, size_t, off_t);
ssize_t __real_pwrite(int, const void *, size_t, off_t);
ssize_t __real_pread64(int, void *, size_t, off64_t);
ssize_t __real_pwrite64(int, const void *, size_t, off64_t);
off_t __real_lseek(int, off_t, int);
off64_t __real_lseek64(int, off64_t, int);
int __real_close(int);
int __real_fsync(int);
int __real_fdatasync(int);
int __real_stat(const char *, struct stat *);
int __real_stat64(const char *, struct stat64 *);
int __real_lstat(const char *, struct stat *);
}

namespace psv {
namespace disk {

namespace {

const int FAKE_FD_BASE = 0x3f000000;

struct File { Bytes data; uint64_t ino = 0; };

struct Handle {
	int id = 0;
	std::string path;
	std::shared_ptr<File> file;
	uint64_t pos = 0;
	bool rd = false, wr = false, append = false, closed = false;
	int deferred_err = 0;         // a lost write on this handle: reported by the next sync or close
	int eintr_run = 0;            // consecutive writes answered with EINTR
	int pending_err = 0;          // continuation of a short-then-error write
	std::string pending_name;
	FILE *fp = nullptr;
	char *buf = nullptr;
	// coalescing of the byte-wise reads glibc issues on an unbuffered cookie stream
	bool merge_ok = false;
	uint64_t merge_end = 0, merge_len = 0, merge_gen = 0;
	size_t merge_idx = 0;
};

struct State {
	std::map<std::string, std::shared_ptr<File>> files;
	std::vector<std::unique_ptr<Handle>> handles;
	std::map<FILE *, Handle *> by_fp;      // in-run lookup only
	std::vector<Op> log;
	bool log_reads = true;
	Config cfg;
	Rng chunk_rng;
	std::vector<Fault> faults;
	std::vector<char> spent;
	uint64_t counts[OP_NKINDS] = {};
	std::map<std::string, uint64_t> fired;
	Stats stats;
	std::vector<char *> dead_bufs;
	uint64_t log_gen = 1;   // bumped whenever the log is cleared
};

State &S() { static State *s = new State(); return *s; }

// realloc wrapper state: plain data, usable before any constructor ran
bool g_ra_armed = false, g_ra_persistent = false;
int64_t g_ra_at = 0;
uint64_t g_ra_calls = 0, g_ra_fired = 0;

struct ErrName { const char *name; int e; };
const ErrName ERRS[] = {
	{"ENOSPC", ENOSPC}, {"EFBIG", EFBIG}, {"EIO", EIO}, {"EINTR", EINTR}, {"EACCES", EACCES},
	{"ENOENT", ENOENT}, {"EMFILE", EMFILE}, {"EBADF", EBADF}, {"EINVAL", EINVAL}, {"ENOMEM", ENOMEM},
};

void free_dead_bufs() {
	State &s = S();
	for (char *b : s.dead_bufs) free(b);
	s.dead_bufs.clear();
}

// the fault (if any) that hits operation number idx of kind `on`
const Fault *match(const char *on, uint64_t idx) {
	State &s = S();
	for (size_t i = 0; i < s.faults.size(); i++) {
		const Fault &f = s.faults[i];
		if (f.on != on) continue;
		if (f.persistent) { if ((int64_t)idx >= f.at) return &f; }
		else if ((int64_t)idx == f.at && !s.spent[i]) { s.spent[i] = 1; return &f; }
	}
	return nullptr;
}
const Fault *quota() {
	for (const Fault &f : S().faults) if (f.on == "quota") return &f;
	return nullptr;
}
void fire(const char *on, const std::string &err) { S().fired[std::string(on) + ":" + err]++; }

void push(Op &&op) {
	State &s = S();
	if (!s.log_reads && (op.kind == OP_READ || op.kind == OP_SEEK)) return;
	if (s.log.size() >= (size_t(1) << 21)) return;   // a caller spinning on a persistent error must not exhaust memory
	s.log.push_back(std::move(op));
}

// one simulated write(2): returns bytes persisted, or -1 with errno set
ssize_t kwrite(Handle &h, const uint8_t *p, size_t n) {
	State &s = S();
	h.merge_ok = false;
	uint64_t idx = s.counts[OP_WRITE]++;
	Op op; op.kind = OP_WRITE; op.path = h.path; op.handle = h.id; op.len = n;
	uint64_t off = h.append ? h.file->data.size() : h.pos;
	op.off = off;
	auto fail = [&](int e, const std::string &name) -> ssize_t {
		op.err = e; op.fault = name; push(std::move(op)); errno = e; return -1;
	};
	if (!h.wr || h.closed) return fail(EBADF, "");
	if (h.pending_err) {
		int e = h.pending_err; std::string nm = h.pending_name;
		h.pending_err = 0; h.pending_name.clear();
		return fail(e, nm);
	}
	size_t can = n;
	if (const Fault *f = match("write", idx)) {
		if (f->err.compare(0, 5, "lost_") == 0) {
			// a lost write: the kernel accepts the data (full count returned) but it never reaches the medium; the
			// error is reported when the file is synced or closed (deferred write-back error: NFS, quota, thin provisioning)
			int e = errno_from_name(f->err.substr(5));
			if (!e) e = EIO;
			fire("write", f->err);
			Bytes &d0 = h.file->data;
			if (off + n > d0.size()) d0.resize(off + n, 0);      // the file has its length, the bytes are not there
			h.pos = off + n;
			h.deferred_err = e;
			op.done = n;
			op.fault = f->err;
			op.bytes.assign(n, 0);
			// what a crash image holds for this range is what the file holds: the old bytes (zeros where it grew)
			for (size_t k = 0; k < n; k++) op.bytes[k] = d0[off + k];
			push(std::move(op));
			return (ssize_t)n;
		}
		if (f->err.compare(0, 6, "short_") == 0) {
			int e = errno_from_name(f->err.substr(6));
			if (!e) e = EIO;
			fire("write", f->err);
			if (n <= 1) return fail(e, f->err);
			can = 1 + (size_t)((uint64_t)(f->arg < 0 ? -f->arg : f->arg) % (n - 1));
			h.pending_err = e; h.pending_name = f->err;
			op.fault = f->err;
		} else {
			int e = errno_from_name(f->err);
			if (!e) e = EIO;
			// EINTR means "try again": a caller that does so must get through eventually. A persistent EINTR
			// fault therefore interrupts a handle at most three times in a row; the next attempt succeeds.
			bool let_through = false;
			if (e == EINTR) { if (h.eintr_run >= 3) { h.eintr_run = 0; let_through = true; } else h.eintr_run++; }
			if (!let_through) {
				fire("write", f->err);
				return fail(e, f->err);
			}
		}
	} else if (const Fault *q = quota()) {
		uint64_t lim = (uint64_t)(q->arg < 0 ? 0 : q->arg);
		if (off + can > lim) {
			size_t fit = off < lim ? (size_t)(lim - off) : 0;
			if (fit == 0) {
				int e = errno_from_name(q->err);
				if (!e) e = ENOSPC;
				fire("quota", q->err.empty() ? "ENOSPC" : q->err);
				return fail(e, "quota");
			}
			can = fit;
		}
	}
	if (op.fault.empty()) {
		if (s.cfg.max_chunk && can > s.cfg.max_chunk) can = (size_t)s.cfg.max_chunk;
		if (s.cfg.short_write_permille > 0 && can > 1 && (int)s.chunk_rng.below(1000) < s.cfg.short_write_permille)
			can = 1 + (size_t)s.chunk_rng.below(can - 1);
	}
	Bytes &d = h.file->data;
	if (off + can > d.size()) d.resize(off + can, 0);
	memcpy(d.data() + off, p, can);
	h.pos = off + can;
	op.done = can;
	op.bytes.assign(p, p + can);
	push(std::move(op));
	return (ssize_t)can;
}

// glibc's _IO_new_file_write re-stated: loop until everything is written or
// the kernel reports an error; return what was written before the error.
ssize_t ck_write(void *c, const char *buf, size_t size) {
	Handle &h = *static_cast<Handle *>(c);
	State &s = S();
	s.stats.cookie_writes++;
	size_t done = 0;
	while (done < size) {
		ssize_t k = kwrite(h, reinterpret_cast<const uint8_t *>(buf) + done, size - done);
		if (k < 0) break;
		if (k == 0) { errno = EIO; break; }
		if ((size_t)k < size - done) s.stats.short_writes_looped++;
		done += (size_t)k;
	}
	return (ssize_t)done;
}

ssize_t ck_read(void *c, char *buf, size_t size) {
	Handle &h = *static_cast<Handle *>(c);
	State &s = S();
	s.stats.cookie_reads++;
	// glibc refills an unbuffered cookie stream one byte at a time (generic
	// underflow path), where a real descriptor would be read directly into the
	// caller's buffer. Consecutive 1-byte reads are therefore folded into one
	// simulated read(2) of up to 2880 bytes: one op, one fault opportunity.
	if (size == 1 && h.merge_ok && h.rd && !h.closed && h.merge_end == h.pos && h.merge_len < 2880 && h.pos < h.file->data.size()) {
		*buf = (char)h.file->data[h.pos];
		h.pos++; h.merge_end = h.pos; h.merge_len++;
		if (h.merge_gen == s.log_gen && h.merge_idx < s.log.size()) { Op &m = s.log[h.merge_idx]; m.len++; m.done++; }
		return 1;
	}
	h.merge_ok = false;
	uint64_t idx = s.counts[OP_READ]++;
	Op op; op.kind = OP_READ; op.path = h.path; op.handle = h.id; op.len = size; op.off = h.pos;
	if (!h.rd || h.closed) { op.err = EBADF; push(std::move(op)); errno = EBADF; return -1; }
	const Bytes &d = h.file->data;
	size_t avail = h.pos < d.size() ? (size_t)(d.size() - h.pos) : 0;
	size_t can = size < avail ? size : avail;
	if (const Fault *f = match("read", idx)) {
		fire("read", f->err);
		op.fault = f->err;
		if (f->err == "eof") { push(std::move(op)); return 0; }
		if (f->err == "short") {
			if (can > 1) { can = 1 + (size_t)((uint64_t)(f->arg < 0 ? -f->arg : f->arg) % (can - 1)); s.stats.short_reads++; }
		} else {
			int e = errno_from_name(f->err);
			if (!e) e = EIO;
			op.err = e; push(std::move(op)); errno = e; return -1;
		}
	} else {
		if (s.cfg.max_chunk && can > s.cfg.max_chunk) can = (size_t)s.cfg.max_chunk;
		if (s.cfg.short_read_permille > 0 && can > 1 && (int)s.chunk_rng.below(1000) < s.cfg.short_read_permille) {
			can = 1 + (size_t)s.chunk_rng.below(can - 1);
			s.stats.short_reads++;
		}
	}
	if (can) memcpy(buf, d.data() + h.pos, can);
	h.pos += can;
	op.done = can;
	bool start_merge = size == 1 && can == 1 && op.fault.empty();
	push(std::move(op));
	if (start_merge) {
		h.merge_ok = true; h.merge_end = h.pos; h.merge_len = 1;
		h.merge_gen = s.log_gen; h.merge_idx = s.log.empty() ? 0 : s.log.size() - 1;
		if (!s.log_reads) h.merge_gen = 0;
	}
	return (ssize_t)can;
}

int ck_seek(void *c, off64_t *off, int whence) {
	Handle &h = *static_cast<Handle *>(c);
	State &s = S();
	h.merge_ok = false;
	uint64_t idx = s.counts[OP_SEEK]++;
	Op op; op.kind = OP_SEEK; op.path = h.path; op.handle = h.id; op.len = (uint64_t)whence;
	if (const Fault *f = match("seek", idx)) {
		int e = errno_from_name(f->err);
		if (!e) e = EIO;
		fire("seek", f->err);
		op.err = e; op.fault = f->err; op.off = h.pos; push(std::move(op)); errno = e; return -1;
	}
	int64_t base = whence == SEEK_SET ? 0 : whence == SEEK_CUR ? (int64_t)h.pos : (int64_t)h.file->data.size();
	int64_t np = base + (int64_t)*off;
	if ((whence != SEEK_SET && whence != SEEK_CUR && whence != SEEK_END) || np < 0) {
		op.err = EINVAL; op.off = h.pos; push(std::move(op)); errno = EINVAL; return -1;
	}
	h.pos = (uint64_t)np;
	*off = (off64_t)np;
	op.off = h.pos;
	push(std::move(op));
	return 0;
}

int ck_close(void *c) {
	Handle &h = *static_cast<Handle *>(c);
	State &s = S();
	uint64_t idx = s.counts[OP_CLOSE]++;
	Op op; op.kind = OP_CLOSE; op.path = h.path; op.handle = h.id;
	h.closed = true;
	if (h.fp) s.by_fp.erase(h.fp);
	h.fp = nullptr;
	if (h.buf) { s.dead_bufs.push_back(h.buf); h.buf = nullptr; }   // still referenced by the FILE until fclose returns
	int rc = 0;
	if (h.pending_err) {   // a short-then-error write whose continuation never came
		h.pending_err = 0; h.pending_name.clear();
	}
	if (const Fault *f = match("close", idx)) {
		int e = errno_from_name(f->err);
		if (!e) e = EIO;
		fire("close", f->err);
		op.err = e; op.fault = f->err; errno = e; rc = -1;
	} else if (h.deferred_err) {
		op.err = h.deferred_err; op.fault = "deferred"; errno = h.deferred_err; rc = -1;
		h.deferred_err = 0;
	}
	push(std::move(op));
	return rc;
}

FILE *sim_open(const char *path, const char *mode) {
	State &s = S();
	free_dead_bufs();
	uint64_t idx = s.counts[OP_OPEN]++;
	s.stats.opens++;
	Op op; op.kind = OP_OPEN; op.path = path; op.mode = mode;
	auto fail = [&](int e, const std::string &name) -> FILE * {
		op.err = e; op.fault = name; push(std::move(op)); errno = e; return nullptr;
	};
	if (const Fault *f = match("open", idx)) {
		int e = errno_from_name(f->err);
		if (!e) e = EIO;
		fire("open", f->err);
		return fail(e, f->err);
	}
	bool plus = strchr(mode, '+') != nullptr;
	char m = mode[0];
	if (m != 'r' && m != 'w' && m != 'a') return fail(EINVAL, "");
	auto it = s.files.find(path);
	std::shared_ptr<File> file;
	if (m == 'r') {
		if (it == s.files.end()) return fail(ENOENT, "");
		file = it->second;
	} else if (it == s.files.end()) {
		file = std::make_shared<File>();
		s.files[path] = file;
	} else {
		file = it->second;
		if (m == 'w') file->data.clear();
	}
	std::unique_ptr<Handle> h(new Handle());
	h->id = (int)s.handles.size();
	h->path = path;
	h->file = file;
	h->rd = (m == 'r') || plus;
	h->wr = (m != 'r') || plus;
	h->append = (m == 'a');
	h->pos = 0;
	cookie_io_functions_t io;
	io.read = ck_read; io.write = ck_write; io.seek = ck_seek; io.close = ck_close;
	FILE *fp = fopencookie(h.get(), mode, io);
	if (!fp) return fail(errno ? errno : ENOMEM, "");
	h->fp = fp;
	// glibc serves fread() on a cookie stream through the generic underflow path
	// (one cookie read per buffer refill), which for an unbuffered stream means
	// one simulated read(2) per byte - an artefact of fopencookie, a real
	// descriptor is read directly. Read-only streams therefore get at least 512.
	int64_t bs = s.cfg.bufsize;
	if (!h->wr && bs >= 0 && bs < 512) bs = 512;
	if (bs == 0) setvbuf(fp, nullptr, _IONBF, 0);
	else if (bs > 0) {
		h->buf = static_cast<char *>(malloc((size_t)bs));
		if (h->buf) setvbuf(fp, h->buf, _IOFBF, (size_t)bs);
	}
	op.handle = h->id;
	s.by_fp[fp] = h.get();
	s.handles.push_back(std::move(h));
	push(std::move(op));
	return fp;
}

int sim_remove(const char *path) {
	State &s = S();
	uint64_t idx = s.counts[OP_REMOVE]++;
	Op op; op.kind = OP_REMOVE; op.path = path;
	if (const Fault *f = match("remove", idx)) {
		int e = errno_from_name(f->err);
		if (!e) e = EACCES;
		fire("remove", f->err);
		op.err = e; op.fault = f->err; push(std::move(op)); errno = e; return -1;
	}
	auto it = s.files.find(path);
	if (it == s.files.end()) { op.err = ENOENT; push(std::move(op)); errno = ENOENT; return -1; }
	s.files.erase(it);
	push(std::move(op));
	return 0;
}

int sim_rename(const char *from, const char *to) {
	State &s = S();
	uint64_t idx = s.counts[OP_RENAME]++;
	Op op; op.kind = OP_RENAME; op.path = from; op.path2 = to;
	if (const Fault *f = match("rename", idx)) {
		int e = errno_from_name(f->err);
		if (!e) e = EACCES;
		fire("rename", f->err);
		op.err = e; op.fault = f->err; push(std::move(op)); errno = e; return -1;
	}
	auto it = s.files.find(from);
	if (it == s.files.end()) { op.err = ENOENT; push(std::move(op)); errno = ENOENT; return -1; }
	if (std::string(from) != to) {
		// atomic replacement of the target; streams open on the file keep writing to it under its new name
		auto moved = std::move(it->second);
		s.files.erase(it);
		s.files[to] = std::move(moved);
		for (auto &h : s.handles) if (h && h->path == from) h->path = to;
	}
	push(std::move(op));
	return 0;
}

int sim_access(const char *path) {
	State &s = S();
	if (s.files.find(path) != s.files.end()) return 0;
	errno = ENOENT;
	return -1;
}

// open(2) of a /sim path: a handle without a stdio stream. The mode string recorded in the op log says what
// the open did to the file, in the letters crash_image() understands: "r" read only, "r+" write access to an
// existing file, "w" create-or-truncate, "c" create-if-missing without truncation, "a" append.
int sim_open_fd(const char *path, int flags) {
	State &s = S();
	free_dead_bufs();
	uint64_t idx = s.counts[OP_OPEN]++;
	s.stats.opens++;
	int acc = flags & O_ACCMODE;
	bool wr = acc == O_WRONLY || acc == O_RDWR, rd = acc == O_RDONLY || acc == O_RDWR;
	std::string mode = !wr ? "r" : (flags & O_APPEND) ? "a" : (flags & O_CREAT) ? ((flags & O_TRUNC) ? "w" : "c") : ((flags & O_TRUNC) ? "w" : "r+");
	if (rd && wr && mode != "r+") mode += "+";
	Op op; op.kind = OP_OPEN; op.path = path; op.mode = mode;
	auto fail = [&](int e, const std::string &name) -> int {
		op.err = e; op.fault = name; push(std::move(op)); errno = e; return -1;
	};
	if (const Fault *f = match("open", idx)) {
		int e = errno_from_name(f->err);
		if (!e) e = EIO;
		fire("open", f->err);
		return fail(e, f->err);
	}
	auto it = s.files.find(path);
	std::shared_ptr<File> file;
	if (it == s.files.end()) {
		if (!(flags & O_CREAT)) return fail(ENOENT, "");
		file = std::make_shared<File>();
		s.files[path] = file;
	} else {
		if ((flags & O_CREAT) && (flags & O_EXCL)) return fail(EEXIST, "");
		file = it->second;
		if (wr && (flags & O_TRUNC)) file->data.clear();
	}
	std::unique_ptr<Handle> h(new Handle());
	h->id = (int)s.handles.size();
	h->path = path;
	h->file = file;
	h->rd = rd; h->wr = wr; h->append = (flags & O_APPEND) != 0;
	h->pos = 0;
	op.handle = h->id;
	int fd = FAKE_FD_BASE + h->id;
	s.handles.push_back(std::move(h));
	push(std::move(op));
	return fd;
}

int sim_sync(Handle &h) {
	State &s = S();
	uint64_t idx = s.counts[OP_SYNC]++;
	Op op; op.kind = OP_SYNC; op.path = h.path; op.handle = h.id;
	if (h.closed) { op.err = EBADF; push(std::move(op)); errno = EBADF; return -1; }
	if (h.deferred_err) { int e = h.deferred_err; h.deferred_err = 0; op.err = e; op.fault = "deferred"; push(std::move(op)); errno = e; return -1; }
	if (const Fault *f = match("sync", idx)) {
		int e = errno_from_name(f->err);
		if (!e) e = EIO;
		fire("sync", f->err);
		op.err = e; op.fault = f->err; push(std::move(op)); errno = e; return -1;
	}
	push(std::move(op));
	return 0;
}

// pread/pwrite: the transfer happens at `off` and leaves the file position alone
ssize_t sim_pio(Handle &h, void *rbuf, const void *wbuf, size_t n, int64_t off) {
	if (off < 0) { errno = EINVAL; return -1; }
	uint64_t save = h.pos;
	bool app = h.append;
	h.pos = (uint64_t)off; h.append = false;
	ssize_t r = wbuf ? kwrite(h, static_cast<const uint8_t *>(wbuf), n) : ck_read(&h, static_cast<char *>(rbuf), n);
	h.pos = save; h.append = app;
	return r;
}

Handle *handle_of_fd(int fd) {
	State &s = S();
	if (fd < FAKE_FD_BASE) return nullptr;
	size_t id = (size_t)(fd - FAKE_FD_BASE);
	if (id >= s.handles.size()) return nullptr;
	return s.handles[id].get();
}

int sim_truncate(Handle &h, int64_t len) {
	State &s = S();
	uint64_t idx = s.counts[OP_TRUNCATE]++;
	Op op; op.kind = OP_TRUNCATE; op.path = h.path; op.handle = h.id; op.off = (uint64_t)(len < 0 ? 0 : len);
	auto fail = [&](int e, const std::string &name) -> int {
		op.err = e; op.fault = name; push(std::move(op)); errno = e; return -1;
	};
	if (h.closed || !h.wr) return fail(EBADF, "");
	if (len < 0) return fail(EINVAL, "");
	if (const Fault *f = match("truncate", idx)) {
		int e = errno_from_name(f->err);
		if (!e) e = EIO;
		fire("truncate", f->err);
		return fail(e, f->err);
	}
	if (const Fault *q = quota()) {
		if ((uint64_t)len > h.file->data.size() && (uint64_t)len > (uint64_t)(q->arg < 0 ? 0 : q->arg)) {
			int e = errno_from_name(q->err);
			if (!e) e = ENOSPC;
			fire("quota", q->err.empty() ? "ENOSPC" : q->err);
			return fail(e, "quota");
		}
	}
	h.file->data.resize((size_t)len, 0);
	push(std::move(op));
	return 0;
}

} // namespace

const char *kind_name(OpKind k) {
	static const char *n[] = {"open", "write", "read", "seek", "truncate", "remove", "close", "rename", "sync"};
	return (int)k >= 0 && k < OP_NKINDS ? n[k] : "?";
}
bool kind_from_name(const std::string &s, OpKind &k) {
	for (int i = 0; i < OP_NKINDS; i++) if (s == kind_name((OpKind)i)) { k = (OpKind)i; return true; }
	return false;
}
int errno_from_name(const std::string &s) {
	for (const ErrName &e : ERRS) if (s == e.name) return e.e;
	return 0;
}
const char *errno_name(int e) {
	if (e == 0) return "ok";
	for (const ErrName &x : ERRS) if (x.e == e) return x.name;
	return "E?";
}

bool is_sim_path(const char *path) { return path && strncmp(path, "/sim/", 5) == 0; }

void reset() {
	State &s = S();
	// streams still open belong to whoever opened them; their cookies must stay
	// valid, so handles of unclosed streams are kept alive (leaked) on purpose
	for (auto &h : s.handles) if (h && !h->closed) { h->file = std::make_shared<File>(); h.release(); }
	s.handles.clear();
	s.by_fp.clear();
	s.files.clear();
	s.log.clear();
	s.log_gen++;
	s.log_reads = true;
	s.cfg = Config();
	s.chunk_rng = Rng(0, "chunk");
	s.faults.clear(); s.spent.clear();
	for (auto &c : s.counts) c = 0;
	s.fired.clear();
	s.stats = Stats();
	free_dead_bufs();
	g_ra_armed = false; g_ra_calls = 0; g_ra_fired = 0;
}

void put(const std::string &path, const Bytes &bytes) {
	State &s = S();
	auto it = s.files.find(path);
	if (it == s.files.end()) { auto f = std::make_shared<File>(); f->data = bytes; s.files[path] = f; }
	else it->second->data = bytes;
}
bool get(const std::string &path, Bytes &out) {
	State &s = S();
	auto it = s.files.find(path);
	if (it == s.files.end()) return false;
	out = it->second->data;
	return true;
}
bool exists(const std::string &path) { return S().files.count(path) != 0; }
bool unlink(const std::string &path) { return S().files.erase(path) != 0; }
std::vector<std::string> list() {
	std::vector<std::string> r;
	for (auto &kv : S().files) r.push_back(kv.first);
	return r;
}

void set_config(const Config &c) {
	State &s = S();
	s.cfg = c;
	s.chunk_rng = Rng(c.chunk_seed, "chunk");
}
const Config &config() { return S().cfg; }

const std::vector<Op> &oplog() { return S().log; }
void clear_oplog() { S().log.clear(); S().log_gen++; }
void set_log_reads(bool on) { S().log_reads = on; }

void arm(const std::vector<Fault> &faults) {
	State &s = S();
	s.faults = faults;
	s.spent.assign(faults.size(), 0);
	for (auto &c : s.counts) c = 0;
}
void disarm() {
	State &s = S();
	s.faults.clear(); s.spent.clear();
	for (auto &c : s.counts) c = 0;
}
const std::map<std::string, uint64_t> &fired() { return S().fired; }
void clear_fired() { S().fired.clear(); }
uint64_t op_count(OpKind k) { return S().counts[k]; }
size_t open_handles() {
	size_t n = 0;
	for (auto &h : S().handles) if (h && !h->closed) n++;
	return n;
}
const Stats &stats() { return S().stats; }

Image crash_image(const std::vector<Op> &log, const std::string &path, size_t k, uint64_t b, const Image &initial) {
	// Replays the first k operations (plus b bytes of operation k) over *all* files, because a rename can
	// bring the content of another file under the name we are asked about. A handle stays attached to the
	// file object it was opened on: an unlinked (or replaced) file keeps receiving its handles' writes, but
	// they no longer reach any name.
	struct F { Image img; uint64_t gen = 1; };
	std::map<std::string, F> files;
	files[path].img = initial;
	struct H { std::string path; uint64_t gen; };
	std::map<int, H> hs;
	auto apply_write = [&](const Op &op, uint64_t nbytes) {
		auto it = hs.find(op.handle);
		if (it == hs.end()) return;
		F &f = files[it->second.path];
		if (f.gen != it->second.gen || !f.img.exists) return;
		if (nbytes > op.bytes.size()) nbytes = op.bytes.size();
		if (nbytes == 0) return;
		if (op.off + nbytes > f.img.bytes.size()) f.img.bytes.resize(op.off + nbytes, 0);
		memcpy(f.img.bytes.data() + op.off, op.bytes.data(), nbytes);
	};
	size_t n = k < log.size() ? k : log.size();
	for (size_t i = 0; i < n; i++) {
		const Op &op = log[i];
		switch (op.kind) {
		case OP_OPEN: {
			if (op.err) break;
			F &f = files[op.path];
			if (op.mode[0] == 'r') { if (f.img.exists) hs[op.handle] = H{op.path, f.gen}; break; }
			if (!f.img.exists) { f.img.exists = true; f.img.bytes.clear(); f.gen++; }
			else if (op.mode[0] == 'w') f.img.bytes.clear();
			hs[op.handle] = H{op.path, f.gen};
			break;
		}
		case OP_WRITE: apply_write(op, op.done); break;
		case OP_TRUNCATE: {
			if (op.err) break;
			auto it = hs.find(op.handle);
			if (it == hs.end()) break;
			F &f = files[it->second.path];
			if (f.gen == it->second.gen && f.img.exists) f.img.bytes.resize(op.off, 0);
			break;
		}
		case OP_REMOVE:
			if (!op.err) { F &f = files[op.path]; f.img.exists = false; f.img.bytes.clear(); f.gen++; }
			break;
		case OP_RENAME: {
			if (op.err || op.path == op.path2) break;
			F &src = files[op.path];
			if (!src.img.exists) break;
			uint64_t old_gen = src.gen;
			F &dst = files[op.path2];
			dst.img = src.img; dst.gen++;
			src.img.exists = false; src.img.bytes.clear(); src.gen++;
			for (auto &h : hs) if (h.second.path == op.path && h.second.gen == old_gen) { h.second.path = op.path2; h.second.gen = dst.gen; }
			break;
		}
		default: break;
		}
	}
	if (k < log.size() && b > 0 && log[k].kind == OP_WRITE) apply_write(log[k], b);
	return files[path].img;
}

void arm_realloc(int64_t at, bool persistent) { g_ra_armed = true; g_ra_at = at; g_ra_persistent = persistent; g_ra_calls = 0; }
void disarm_realloc() { g_ra_armed = false; }
uint64_t realloc_calls() { return g_ra_calls; }
uint64_t realloc_fired() { return g_ra_fired; }

} // namespace disk
} // namespace psv

using namespace psv::disk;

extern "C" {

FILE *__wrap_fopen64(const char *path, const char *mode) {
	if (is_sim_path(path)) return sim_open(path, mode);
	return __real_fopen64(path, mode);
}
FILE *__wrap_fopen(const char *path, const char *mode) {
	if (is_sim_path(path)) return sim_open(path, mode);
	return __real_fopen(path, mode);
}
int __wrap_remove(const char *path) {
	if (is_sim_path(path)) return sim_remove(path);
	return __real_remove(path);
}
int __wrap_unlink(const char *path) {
	if (is_sim_path(path)) return sim_remove(path);
	return __real_unlink(path);
}
int __wrap_rename(const char *from, const char *to) {
	if (is_sim_path(from) && is_sim_path(to)) return sim_rename(from, to);
	if (is_sim_path(from) || is_sim_path(to)) { errno = EXDEV; return -1; }
	return __real_rename(from, to);
}
int __wrap_access(const char *path, int mode) {
	if (is_sim_path(path)) return sim_access(path);
	return __real_access(path, mode);
}
int __wrap_fileno(FILE *fp) {
	if (fp) {
		State &s = S();
		auto it = s.by_fp.find(fp);
		if (it != s.by_fp.end()) return FAKE_FD_BASE + it->second->id;
	}
	return __real_fileno(fp);
}
int __wrap_ftruncate64(int fd, off64_t len) {
	if (Handle *h = handle_of_fd(fd)) return sim_truncate(*h, (int64_t)len);
	return __real_ftruncate64(fd, len);
}
int __wrap_ftruncate(int fd, off_t len) {
	if (Handle *h = handle_of_fd(fd)) return sim_truncate(*h, (int64_t)len);
	return __real_ftruncate(fd, len);
}
int __wrap_open(const char *path, int flags, ...) {
	mode_t m = 0;
	if (flags & (O_CREAT | O_TMPFILE)) { va_list ap; va_start(ap, flags); m = (mode_t)va_arg(ap, int); va_end(ap); }
	if (is_sim_path(path)) return sim_open_fd(path, flags);
	return __real_open(path, flags, m);
}
int __wrap_open64(const char *path, int flags, ...) {
	mode_t m = 0;
	if (flags & (O_CREAT | O_TMPFILE)) { va_list ap; va_start(ap, flags); m = (mode_t)va_arg(ap, int); va_end(ap); }
	if (is_sim_path(path)) return sim_open_fd(path, flags);
	return __real_open64(path, flags, m);
}
int __wrap_creat(const char *path, mode_t m) {
	if (is_sim_path(path)) return sim_open_fd(path, O_WRONLY | O_CREAT | O_TRUNC);
	return __real_creat(path, m);
}
ssize_t __wrap_write(int fd, const void *buf, size_t n) {
	if (Handle *h = handle_of_fd(fd)) return kwrite(*h, static_cast<const uint8_t *>(buf), n);
	return __real_write(fd, buf, n);
}
ssize_t __wrap_read(int fd, void *buf, size_t n) {
	if (Handle *h = handle_of_fd(fd)) return ck_read(h, static_cast<char *>(buf), n);
	return __real_read(fd, buf, n);
}
ssize_t __wrap_pwrite(int fd, const void *buf, size_t n, off_t off) {
	if (Handle *h = handle_of_fd(fd)) return sim_pio(*h, nullptr, buf, n, (int64_t)off);
	return __real_pwrite(fd, buf, n, off);
}
ssize_t __wrap_pread(int fd, void *buf, size_t n, off_t off) {
	if (Handle *h = handle_of_fd(fd)) return sim_pio(*h, buf, nullptr, n, (int64_t)off);
	return __real_pread(fd, buf, n, off);
}
ssize_t __wrap_pwrite64(int fd, const void *buf, size_t n, off64_t off) {
	if (Handle *h = handle_of_fd(fd)) return sim_pio(*h, nullptr, buf, n, (int64_t)off);
	return __real_pwrite64(fd, buf, n, off);
}
ssize_t __wrap_pread64(int fd, void *buf, size_t n, off64_t off) {
	if (Handle *h = handle_of_fd(fd)) return sim_pio(*h, buf, nullptr, n, (int64_t)off);
	return __real_pread64(fd, buf, n, off);
}
off_t __wrap_lseek(int fd, off_t off, int whence) {
	if (Handle *h = handle_of_fd(fd)) { off64_t o = off; return ck_seek(h, &o, whence) == 0 ? (off_t)o : (off_t)-1; }
	return __real_lseek(fd, off, whence);
}
off64_t __wrap_lseek64(int fd, off64_t off, int whence) {
	if (Handle *h = handle_of_fd(fd)) { off64_t o = off; return ck_seek(h, &o, whence) == 0 ? o : (off64_t)-1; }
	return __real_lseek64(fd, off, whence);
}
int __wrap_close(int fd) {
	if (Handle *h = handle_of_fd(fd)) {
		if (h->closed) { errno = EBADF; return -1; }
		if (h->fp) { errno = EBADF; return -1; }   // the descriptor under a stdio stream belongs to the stream
		return ck_close(h);
	}
	return __real_close(fd);
}
int __wrap_fsync(int fd) {
	if (Handle *h = handle_of_fd(fd)) return sim_sync(*h);
	return __real_fsync(fd);
}
int __wrap_fdatasync(int fd) {
	if (Handle *h = handle_of_fd(fd)) return sim_sync(*h);
	return __real_fdatasync(fd);
}
// stat of a /sim path: size, regular file, and a modification time that is a function of the content (logical, no
// clock): a caller that re-validates a cache by size and mtime sees a change exactly when the bytes changed
static bool sim_stat_fill(const char *path, off_t &size, time_t &mtime) {
	State &s = S();
	auto it = s.files.find(path);
	if (it == s.files.end()) return false;
	size = (off_t)it->second->data.size();
	uint64_t hsh = 1469598103934665603ULL;
	for (uint8_t b : it->second->data) { hsh ^= b; hsh *= 1099511628211ULL; }
	mtime = (time_t)(1000000000 + (hsh % 500000000));
	return true;
}
int __wrap_stat(const char *path, struct stat *st) {
	if (is_sim_path(path)) {
		off_t sz; time_t mt;
		if (!sim_stat_fill(path, sz, mt)) { errno = ENOENT; return -1; }
		memset(st, 0, sizeof *st);
		st->st_mode = S_IFREG | 0644; st->st_nlink = 1; st->st_size = sz; st->st_mtime = mt; st->st_ctime = mt; st->st_atime = mt; st->st_blksize = 4096; st->st_blocks = (sz + 511) / 512;
		return 0;
	}
	return __real_stat(path, st);
}
int __wrap_lstat(const char *path, struct stat *st) { if (is_sim_path(path)) return __wrap_stat(path, st); return __real_lstat(path, st); }
int __wrap_stat64(const char *path, struct stat64 *st) {
	if (is_sim_path(path)) {
		off_t sz; time_t mt;
		if (!sim_stat_fill(path, sz, mt)) { errno = ENOENT; return -1; }
		memset(st, 0, sizeof *st);
		st->st_mode = S_IFREG | 0644; st->st_nlink = 1; st->st_size = sz; st->st_mtime = mt; st->st_ctime = mt; st->st_atime = mt; st->st_blksize = 4096; st->st_blocks = (sz + 511) / 512;
		return 0;
	}
	return __real_stat64(path, st);
}
void *__wrap_realloc(void *p, size_t n) {
	if (g_ra_armed) {
		uint64_t idx = g_ra_calls++;
		if ((g_ra_persistent && (int64_t)idx >= g_ra_at) || (!g_ra_persistent && (int64_t)idx == g_ra_at)) {
			g_ra_fired++;
			errno = ENOMEM;
			return nullptr;
		}
	}
	return __real_realloc(p, n);
}

} // extern "C"
