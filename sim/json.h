// Minimal JSON value: enough for plans, replay files, stats. Objects keep
// insertion order (a plan must dump the same text for the same content, so no
// hash-ordered containers anywhere).
#pragma once
#include <cstdint>
#include <cstdio>
#include <cstdlib>
#include <cstring>
#include <cmath>
#include <string>
#include <vector>
#include <utility>
#include <stdexcept>
#include <fstream>
#include <sstream>

namespace psv {

class Json {
public:
	enum Type { Null, Bool, Int, Dbl, Str, Arr, Obj };
	Type t = Null;
	bool b = false;
	int64_t i = 0;
	double d = 0;
	std::string s;
	std::vector<Json> a;
	std::vector<std::pair<std::string, Json>> o;

	Json() {}
	Json(bool v) : t(Bool), b(v) {}
	Json(int v) : t(Int), i(v) {}
	Json(unsigned v) : t(Int), i(v) {}
	Json(long v) : t(Int), i(v) {}
	Json(unsigned long v) : t(Int), i((int64_t)v) {}
	Json(long long v) : t(Int), i(v) {}
	Json(unsigned long long v) : t(Int), i((int64_t)v) {}
	Json(double v) { set_double(v); }
	Json(const char *v) : t(Str), s(v) {}
	Json(const std::string &v) : t(Str), s(v) {}
	static Json array() { Json j; j.t = Arr; return j; }
	static Json object() { Json j; j.t = Obj; return j; }

	// non-finite doubles are stored as strings so that they survive a dump
	void set_double(double v) {
		if (std::isnan(v)) { t = Str; s = "nan"; }
		else if (std::isinf(v)) { t = Str; s = v > 0 ? "inf" : "-inf"; }
		else { t = Dbl; d = v; }
	}
	bool is_null() const { return t == Null; }
	bool is_obj() const { return t == Obj; }
	bool is_arr() const { return t == Arr; }
	bool is_str() const { return t == Str; }
	bool is_num() const { return t == Int || t == Dbl; }

	double num() const {
		if (t == Int) return (double)i;
		if (t == Dbl) return d;
		if (t == Str) {
			if (s == "nan") return NAN;
			if (s == "inf") return INFINITY;
			if (s == "-inf") return -INFINITY;
			if (s.find("0x") != std::string::npos) return strtod(s.c_str(), nullptr);
		}
		if (t == Bool) return b ? 1 : 0;
		return 0;
	}
	int64_t integer() const {
		if (t == Int) return i;
		if (t == Dbl) return (int64_t)d;
		if (t == Bool) return b ? 1 : 0;
		if (t == Str) return strtoll(s.c_str(), nullptr, 0);
		return 0;
	}
	bool boolean() const { return t == Bool ? b : integer() != 0; }
	const std::string &str() const { return s; }

	size_t size() const { return t == Arr ? a.size() : t == Obj ? o.size() : 0; }
	Json &operator[](size_t k) { return a[k]; }
	const Json &operator[](size_t k) const { return a[k]; }
	void push(const Json &v) { if (t != Arr) { t = Arr; a.clear(); } a.push_back(v); }

	bool has(const std::string &k) const {
		for (auto &kv : o) if (kv.first == k) return true;
		return false;
	}
	const Json &at(const std::string &k) const {
		static const Json nul;
		for (auto &kv : o) if (kv.first == k) return kv.second;
		return nul;
	}
	Json &operator[](const std::string &k) {
		if (t != Obj) { t = Obj; o.clear(); }
		for (auto &kv : o) if (kv.first == k) return kv.second;
		o.emplace_back(k, Json());
		return o.back().second;
	}
	Json &operator[](const char *k) { return (*this)[std::string(k)]; }
	const Json &operator[](const char *k) const { return at(k); }
	void erase(const std::string &k) {
		for (size_t j = 0; j < o.size(); j++) if (o[j].first == k) { o.erase(o.begin() + j); return; }
	}
	int64_t geti(const char *k, int64_t def = 0) const { return has(k) ? at(k).integer() : def; }
	double getd(const char *k, double def = 0) const { return has(k) ? at(k).num() : def; }
	std::string gets(const char *k, const std::string &def = "") const { return has(k) && at(k).t == Str ? at(k).s : def; }
	bool getb(const char *k, bool def = false) const { return has(k) ? at(k).boolean() : def; }

	static void esc(std::string &out, const std::string &v) {
		out += '"';
		for (unsigned char c : v) {
			switch (c) {
			case '"': out += "\\\""; break;
			case '\\': out += "\\\\"; break;
			case '\n': out += "\\n"; break;
			case '\r': out += "\\r"; break;
			case '\t': out += "\\t"; break;
			default:
				if (c < 0x20 || c >= 0x7f) { char buf[8]; snprintf(buf, sizeof buf, "\\u%04x", c); out += buf; }
				else out += (char)c;
			}
		}
		out += '"';
	}
	void dump_to(std::string &out) const {
		char buf[40];
		switch (t) {
		case Null: out += "null"; break;
		case Bool: out += b ? "true" : "false"; break;
		case Int: snprintf(buf, sizeof buf, "%lld", (long long)i); out += buf; break;
		case Dbl:
			snprintf(buf, sizeof buf, "%.17g", d);
			out += buf;
			if (!strpbrk(buf, ".eE")) out += ".0";
			break;
		case Str: esc(out, s); break;
		case Arr:
			out += '[';
			for (size_t k = 0; k < a.size(); k++) { if (k) out += ','; a[k].dump_to(out); }
			out += ']';
			break;
		case Obj:
			out += '{';
			for (size_t k = 0; k < o.size(); k++) {
				if (k) out += ',';
				esc(out, o[k].first); out += ':'; o[k].second.dump_to(out);
			}
			out += '}';
			break;
		}
	}
	std::string dump() const { std::string r; dump_to(r); return r; }

	// ---- parser ----
	struct P {
		const char *p, *e;
		void ws() { while (p < e && (*p == ' ' || *p == '\n' || *p == '\t' || *p == '\r')) p++; }
		[[noreturn]] void fail(const char *m) { throw std::runtime_error(std::string("json: ") + m); }
		Json val() {
			ws();
			if (p >= e) fail("eof");
			char c = *p;
			if (c == '{') {
				p++; Json j = Json::object(); ws();
				if (p < e && *p == '}') { p++; return j; }
				for (;;) {
					ws(); if (p >= e || *p != '"') fail("key");
					std::string k = strv(); ws();
					if (p >= e || *p != ':') fail("colon");
					p++; j.o.emplace_back(k, val()); ws();
					if (p < e && *p == ',') { p++; continue; }
					if (p < e && *p == '}') { p++; return j; }
					fail("obj");
				}
			}
			if (c == '[') {
				p++; Json j = Json::array(); ws();
				if (p < e && *p == ']') { p++; return j; }
				for (;;) {
					j.a.push_back(val()); ws();
					if (p < e && *p == ',') { p++; continue; }
					if (p < e && *p == ']') { p++; return j; }
					fail("arr");
				}
			}
			if (c == '"') return Json(strv());
			if (!strncmp(p, "true", 4)) { p += 4; return Json(true); }
			if (!strncmp(p, "false", 5)) { p += 5; return Json(false); }
			if (!strncmp(p, "null", 4)) { p += 4; return Json(); }
			const char *q = p; bool isd = false;
			if (q < e && (*q == '-' || *q == '+')) q++;
			while (q < e && (isdigit((unsigned char)*q) || *q == '.' || *q == 'e' || *q == 'E' || *q == '-' || *q == '+')) {
				if (*q == '.' || *q == 'e' || *q == 'E') isd = true;
				q++;
			}
			if (q == p) fail("value");
			std::string tok(p, q); p = q;
			if (isd) { Json j; j.t = Dbl; j.d = strtod(tok.c_str(), nullptr); return j; }
			Json j; j.t = Int; j.i = strtoll(tok.c_str(), nullptr, 10); return j;
		}
		std::string strv() {
			std::string r; p++;
			while (p < e && *p != '"') {
				if (*p == '\\' && p + 1 < e) {
					p++;
					switch (*p) {
					case 'n': r += '\n'; break; case 't': r += '\t'; break; case 'r': r += '\r'; break;
					case 'b': r += '\b'; break; case 'f': r += '\f'; break;
					case 'u': {
						if (p + 4 >= e) fail("u");
						unsigned v = (unsigned)strtoul(std::string(p + 1, p + 5).c_str(), nullptr, 16);
						r += (char)(v & 0xff); p += 4; break;
					}
					default: r += *p;
					}
					p++;
				} else r += *p++;
			}
			if (p >= e) fail("string");
			p++; return r;
		}
	};
	static Json parse(const std::string &text) {
		P ps{text.data(), text.data() + text.size()};
		Json j = ps.val(); ps.ws();
		return j;
	}
	static Json load(const std::string &path) {
		std::ifstream f(path);
		if (!f) throw std::runtime_error("cannot open " + path);
		std::stringstream ss; ss << f.rdbuf();
		return parse(ss.str());
	}
	void save(const std::string &path) const {
		std::ofstream f(path);
		f << dump() << "\n";
	}
};

// exact double <-> json: hex-float string keeps every bit and is readable
inline Json jhex(double v) {
	if (std::isnan(v)) return Json("nan");
	if (std::isinf(v)) return Json(v > 0 ? "inf" : "-inf");
	char buf[48]; snprintf(buf, sizeof buf, "%a", v);
	return Json(buf);
}

} // namespace psv
