#include "sched.h"
#include <cassert>
#include <cerrno>
#include <csignal>
#include <cstring>
#include <ctime>
#include <memory>
#include <exception>
#include <unordered_map>
#include <map>
#include <vector>
#include <set>
#include <pthread.h>
#include <sched.h>
#include <sys/mman.h>
#include <unistd.h>

#if defined(__SANITIZE_ADDRESS__)
#include <sanitizer/common_interface_defs.h>
#include <sanitizer/asan_interface.h>
#define PSV_ASAN 1
#else
#define PSV_ASAN 0
#endif

namespace psv {

const char *op_name(OpKind k) {
	static const char *n[] = {"none", "start", "create", "lock", "trylock", "unlock", "cwait", "cwake", "bcast",
	                          "signal", "join", "exit", "yield", "misc"};
	return n[k];
}

SchedConfig SchedConfig::from_json(const Json &j) {
	SchedConfig c;
	c.policy = j.gets("policy", "random");
	c.seed = (uint64_t)strtoull(j.gets("seed", "0").c_str(), nullptr, 16);
	c.pct_depth = (int)j.geti("pct_depth", 2);
	c.stall_victim = (int)j.geti("stall_victim", 0);
	c.stall_start = (int)j.geti("stall_start", 0);
	c.stall_len = (int)j.geti("stall_len", 0);
	c.sticky_p = j.getd("sticky_p", 0.2);
	c.spurious = j.getb("spurious", false);
	c.spurious_p = j.getd("spurious_p", 0.05);
	c.spurious_max = (int)j.geti("spurious_max", 6);
	c.timedwait_timeouts = j.getb("timedwait_timeouts", false);
	c.step_budget = j.geti("step_budget", 200000);
	if (j.has("explicit"))
		for (auto &v : j["explicit"].a) c.explicit_choices.push_back(v.integer());
	return c;
}
Json SchedConfig::to_json() const {
	Json j = Json::object();
	j["policy"] = Json(policy);
	j["seed"] = Json(hex64(seed));
	if (policy == "pct") j["pct_depth"] = Json(pct_depth);
	if (policy == "stall") { j["stall_victim"] = Json(stall_victim); j["stall_start"] = Json(stall_start); j["stall_len"] = Json(stall_len); }
	if (policy == "sticky") j["sticky_p"] = Json(sticky_p);
	j["spurious"] = Json(spurious);
	if (spurious) { j["spurious_p"] = Json(spurious_p); j["spurious_max"] = Json(spurious_max); }
	if (timedwait_timeouts) j["timedwait_timeouts"] = Json(true);
	j["step_budget"] = Json((long long)step_budget);
	if (policy == "explicit") {
		Json a = Json::array();
		for (auto v : explicit_choices) a.push(Json((long long)v));
		j["explicit"] = a;
	}
	return j;
}

namespace {

struct Fiber {
	int id = 0;
	ucontext_t ctx;
	char *stack = nullptr;
	size_t stack_sz = 0;
	std::function<void()> entry;
	void *(*fn)(void *) = nullptr;
	void *arg = nullptr;
	OpKind pending = OP_START;
	void *obj = nullptr, *obj2 = nullptr;
	int target = -1;
	bool finished = false, woken = false, in_cond = false, timed = false, timedout = false;
	VClock vc, final_vc;
	uint64_t prio = 0;
	void *fake_stack = nullptr;
};
struct Mutex { int id; int owner = -1; VClock vc; bool destroyed = false; };
struct Cond { int id; std::vector<int> waiters; bool destroyed = false; };

struct State {
	SchedConfig cfg;
	RunCtx *ctx = nullptr;
	Rng rng;
	std::vector<std::unique_ptr<Fiber>> fibers;
	std::unordered_map<void *, Mutex> mutexes;
	std::unordered_map<void *, Cond> conds;
	ucontext_t main_ctx;
	void *main_fake = nullptr;
	int cur = -1, prev = -1;
	int64_t steps = 0;
	int64_t xsteps = 0;   // steps outside canonical sections: what the policies' windows and change points count
	SchedOutcome out;
	std::exception_ptr exc;
	size_t explicit_pos = 0;
	std::vector<int64_t> pct_points;
	int pct_hit = 0;
	int64_t call_budget_end = -1, call_budget_start = 0;
	std::string call_what;
	bool abort_run = false;
	std::string misuse;
	bool abandoned = false;
	std::string abandon_why;
	int canonical = 0;
	int live = 0;      // unfinished fibers
	int unjoined = 0;  // created and not yet joined (their accesses are ordered only by the join)
};
State *S = nullptr;

std::vector<std::pair<char *, size_t>> g_stack_pool;
char *get_stack(size_t sz) {
	for (size_t i = 0; i < g_stack_pool.size(); i++)
		if (g_stack_pool[i].second == sz) {
			char *p = g_stack_pool[i].first;
			g_stack_pool.erase(g_stack_pool.begin() + (long)i);
#if PSV_ASAN
			__asan_unpoison_memory_region(p, sz);
#endif
			return p;
		}
	void *p = mmap(nullptr, sz, PROT_READ | PROT_WRITE, MAP_PRIVATE | MAP_ANONYMOUS, -1, 0);
	if (p == MAP_FAILED) { perror("mmap fiber stack"); abort(); }
	return (char *)p;
}
void put_stack(char *p, size_t sz) {
#if PSV_ASAN
	__asan_unpoison_memory_region(p, sz);
#endif
	g_stack_pool.emplace_back(p, sz);
}

void vc_join(VClock &a, const VClock &b) {
	if (a.size() < b.size()) a.resize(b.size(), 0);
	for (size_t i = 0; i < b.size(); i++) if (b[i] > a[i]) a[i] = b[i];
}
void vc_tick(Fiber &f) {
	if (f.vc.size() <= (size_t)f.id) f.vc.resize((size_t)f.id + 1, 0);
	f.vc[(size_t)f.id]++;
}

Mutex &mutex_of(void *p) {
	auto it = S->mutexes.find(p);
	if (it == S->mutexes.end()) { Mutex m; m.id = (int)S->mutexes.size(); it = S->mutexes.emplace(p, m).first; }
	return it->second;
}
Cond &cond_of(void *p) {
	auto it = S->conds.find(p);
	if (it == S->conds.end()) { Cond c; c.id = (int)S->conds.size(); it = S->conds.emplace(p, c).first; }
	return it->second;
}

const void *g_main_bottom = nullptr;
size_t g_main_size = 0;

void yield_now() {
	Fiber &f = *S->fibers[(size_t)S->cur];
#if PSV_ASAN
	__sanitizer_start_switch_fiber(&f.fake_stack, g_main_bottom, g_main_size);
#endif
	swapcontext(&f.ctx, &S->main_ctx);
#if PSV_ASAN
	__sanitizer_finish_switch_fiber(f.fake_stack, nullptr, nullptr);
#endif
}

void fiber_finish_and_leave(Fiber &f) {
	f.finished = true;
	S->live--;
	f.pending = OP_NONE;
	vc_tick(f);
	f.final_vc = f.vc;
#if PSV_ASAN
	__sanitizer_start_switch_fiber(nullptr, g_main_bottom, g_main_size);
#endif
	swapcontext(&f.ctx, &S->main_ctx);
	abort(); // never resumed
}

void tramp() {
	Fiber &f = *S->fibers[(size_t)S->cur];
#if PSV_ASAN
	__sanitizer_finish_switch_fiber(nullptr, &g_main_bottom, &g_main_size);
#endif
	try {
		if (f.entry) f.entry();
		else if (f.fn) f.fn(f.arg);
	} catch (...) {
		if (f.id == 0) S->exc = std::current_exception();
		else { S->misuse = "exception escaped a thread function"; S->abort_run = true; }
	}
	fiber_finish_and_leave(f);
}

Fiber &new_fiber(size_t stack_sz) {
	std::unique_ptr<Fiber> f(new Fiber);
	f->id = (int)S->fibers.size();
	f->stack_sz = stack_sz;
	f->stack = get_stack(stack_sz);
	getcontext(&f->ctx);
	f->ctx.uc_stack.ss_sp = f->stack;
	f->ctx.uc_stack.ss_size = stack_sz;
	f->ctx.uc_link = nullptr;
	makecontext(&f->ctx, tramp, 0);
	f->prio = S->rng.next() | (1ULL << 62);
	S->live++;
	S->fibers.push_back(std::move(f));
	return *S->fibers.back();
}

bool enabled(const Fiber &f) {
	if (f.finished) return false;
	switch (f.pending) {
	case OP_LOCK: { auto it = S->mutexes.find(f.obj); return it == S->mutexes.end() || it->second.owner < 0; }
	case OP_CWAIT_WAKE: {
		if (!f.woken && !f.timedout) return false;
		auto it = S->mutexes.find(f.obj2);
		return it == S->mutexes.end() || it->second.owner < 0;
	}
	case OP_JOIN: return f.target >= 0 && f.target < (int)S->fibers.size() && S->fibers[(size_t)f.target]->finished;
	case OP_NONE: return false;
	default: return true;
	}
}

std::string blocked_desc() {
	std::string d;
	for (auto &fp : S->fibers) {
		Fiber &f = *fp;
		if (f.finished) continue;
		char b[160];
		int oid = -1;
		if (f.pending == OP_LOCK) oid = mutex_of(f.obj).id;
		else if (f.pending == OP_CWAIT_WAKE) oid = cond_of(f.obj).id;
		snprintf(b, sizeof b, "%sf%d:%s%s(o%d,t%d)", d.empty() ? "" : " ", f.id, op_name(f.pending),
		         (f.pending == OP_CWAIT_WAKE && !f.woken) ? "[not-signalled]" : "", oid, f.target);
		d += b;
	}
	return d;
}

void deliver_spurious(int fid) {
	Fiber &f = *S->fibers[(size_t)fid];
	if (f.finished || f.pending != OP_CWAIT_WAKE || f.woken) return;
	f.woken = true;
	Cond &c = cond_of(f.obj);
	for (size_t i = 0; i < c.waiters.size(); i++) if (c.waiters[i] == fid) { c.waiters.erase(c.waiters.begin() + (long)i); break; }
	S->out.spurious_delivered++;
	S->out.trace.push_back(-(int64_t)fid - 1);
	if (S->ctx) { S->ctx->log.ev("spurious f%d", fid); S->ctx->count("fault:spurious_wakeup"); }
}

int pick(const std::vector<int> &E) {
	const SchedConfig &c = S->cfg;
	if (S->canonical) return E.back();
	auto has = [&](int id) { for (int e : E) if (e == id) return true; return false; };
	auto minid = [&]() { return E.front(); };
	if (c.policy == "explicit") {
		while (S->explicit_pos < c.explicit_choices.size()) {
			int64_t ch = c.explicit_choices[S->explicit_pos++];
			if (ch < 0) { int fid = (int)(-ch - 1); if (fid < (int)S->fibers.size()) deliver_spurious(fid); continue; }
			if (has((int)ch)) return (int)ch;
			S->out.diverged = true;
			break;
		}
		if (S->prev >= 0 && has(S->prev)) return S->prev;
		return minid();
	}
	if (c.policy == "newest") return E.back();
	if (c.policy == "oldest") return minid();
	if (c.policy == "sticky") {
		if (S->prev >= 0 && has(S->prev) && !S->rng.chance(c.sticky_p)) return S->prev;
		return E[S->rng.below(E.size())];
	}
	if (c.policy == "stall") {
		if (S->xsteps >= c.stall_start && S->xsteps < c.stall_start + c.stall_len && E.size() > 1 && has(c.stall_victim)) {
			std::vector<int> E2;
			for (int e : E) if (e != c.stall_victim) E2.push_back(e);
			if (S->ctx) S->ctx->count("fault:stall_step");
			return E2[S->rng.below(E2.size())];
		}
		return E[S->rng.below(E.size())];
	}
	if (c.policy == "pct") {
		int best = E.front();
		for (int e : E) if (S->fibers[(size_t)e]->prio > S->fibers[(size_t)best]->prio) best = e;
		for (size_t i = 0; i < S->pct_points.size(); i++)
			if (S->pct_points[i] == S->xsteps) {
				S->fibers[(size_t)best]->prio = (uint64_t)(c.pct_depth - (int)i);   // below every initial priority
				S->pct_hit++;
				if (S->ctx) S->ctx->count("fault:pct_priority_change");
				best = E.front();
				for (int e : E) if (S->fibers[(size_t)e]->prio > S->fibers[(size_t)best]->prio) best = e;
			}
		return best;
	}
	return E[S->rng.below(E.size())];   // random
}

void resume(int id) {
	S->cur = id;
	Fiber &f = *S->fibers[(size_t)id];
#if PSV_ASAN
	__sanitizer_start_switch_fiber(&S->main_fake, f.stack, f.stack_sz);
#endif
	swapcontext(&S->main_ctx, &f.ctx);
#if PSV_ASAN
	__sanitizer_finish_switch_fiber(S->main_fake, nullptr, nullptr);
#endif
	S->cur = -1;
}

// called on a fiber: announce the next operation and wait to be scheduled
void sched_point(OpKind k, void *obj = nullptr, void *obj2 = nullptr, int target = -1) {
	Fiber &f = *S->fibers[(size_t)S->cur];
	f.pending = k; f.obj = obj; f.obj2 = obj2; f.target = target;
	yield_now();
}

} // namespace

bool Sched::active() { return S != nullptr; }
int Sched::current() { return S ? S->cur : -1; }
int64_t Sched::steps() { return S ? S->steps : 0; }
const VClock &Sched::clock_of_current() { static VClock z; return (S && S->cur >= 0) ? S->fibers[(size_t)S->cur]->vc : z; }
void Sched::begin_call_budget(int64_t n, const char *what) {
	if (!S) return;
	S->call_budget_start = S->steps; S->call_budget_end = S->steps + n; S->call_what = what;
}
int64_t Sched::end_call_budget() {
	if (!S) return 0;
	int64_t used = S->steps - S->call_budget_start;
	S->call_budget_end = -1;
	return used;
}
void Sched::misuse(const std::string &what) {
	if (!S) return;
	if (S->misuse.empty()) S->misuse = what;
	if (S->ctx) S->ctx->log.ev("misuse %s", what.c_str());
}

void Sched::begin_canonical() { if (S) S->canonical++; }
void Sched::end_canonical() { if (S && S->canonical > 0) S->canonical--; }

void Sched::abandon(const std::string &why) {
	if (!S || S->cur < 0) return;
	S->abandoned = true;
	S->abandon_why = why;
	S->fibers[(size_t)S->cur]->pending = OP_NONE;
	yield_now();
	abort(); // never resumed
}

SchedOutcome Sched::run(const SchedConfig &cfg, RunCtx *ctx, std::function<void()> fn) {
	assert(!S);
	std::unique_ptr<State> st(new State);
	S = st.get();
	S->cfg = cfg; S->ctx = ctx;
	S->rng = Rng(cfg.seed, "sched");
	if (cfg.policy == "pct") {
		Rng pr(cfg.seed, "pct-points");
		int64_t len = cfg.stall_len > 0 ? cfg.stall_len : 60;
		for (int i = 0; i + 1 < cfg.pct_depth; i++) S->pct_points.push_back(1 + (int64_t)pr.below((uint64_t)len));
	}
	if (ctx) ctx->count("policy:" + cfg.policy);
	Race::reset();
	Fiber &f0 = new_fiber(16u << 20);
	f0.entry = fn;
	uint64_t th = 0xcbf29ce484222325ULL;
	for (;;) {
		if (S->abort_run) { S->out.kind = SchedOutcome::MISUSE; S->out.detail = S->misuse; break; }
		if (S->abandoned) { S->out.kind = SchedOutcome::ABANDONED; S->out.detail = S->abandon_why; break; }
		// spurious wake-ups (legal-but-unusual behaviour), bounded per run
		if (cfg.spurious && cfg.policy != "explicit" && !S->canonical && S->out.spurious_delivered < cfg.spurious_max) {
			std::vector<int> waiting;
			for (auto &fp : S->fibers) if (!fp->finished && fp->pending == OP_CWAIT_WAKE && !fp->woken) waiting.push_back(fp->id);
			if (!waiting.empty() && S->rng.chance(cfg.spurious_p)) deliver_spurious(waiting[S->rng.below(waiting.size())]);
		}
		std::vector<int> E;
		bool all_done = true;
		for (auto &fp : S->fibers) {
			if (!fp->finished) all_done = false;
			if (enabled(*fp)) E.push_back(fp->id);
		}
		if (all_done) break;
		if (E.empty()) {
			// timed waits may time out when nothing else can run (and only then, unless asked otherwise)
			bool rescued = false;
			for (auto &fp : S->fibers)
				if (!fp->finished && fp->pending == OP_CWAIT_WAKE && fp->timed && !fp->woken) {
					fp->timedout = true; rescued = true;
					Cond &c = cond_of(fp->obj);
					for (size_t i = 0; i < c.waiters.size(); i++) if (c.waiters[i] == fp->id) { c.waiters.erase(c.waiters.begin() + (long)i); break; }
					if (ctx) ctx->log.ev("timeout f%d", fp->id);
					break;
				}
			if (rescued) continue;
			S->out.kind = SchedOutcome::DEADLOCK;
			S->out.detail = blocked_desc();
			break;
		}
		if (S->steps >= cfg.step_budget) { S->out.kind = SchedOutcome::BUDGET; S->out.detail = blocked_desc(); break; }
		if (S->call_budget_end >= 0 && S->steps >= S->call_budget_end) {
			S->out.kind = SchedOutcome::CALL_BUDGET; S->out.detail = S->call_what + ": " + blocked_desc(); break;
		}
		int ch = pick(E);
		bool prev_enabled = false;
		for (int e : E) if (e == S->prev) prev_enabled = true;
		if (S->prev >= 0 && ch != S->prev && prev_enabled && !S->canonical) S->out.preemptions++;
		Fiber &f = *S->fibers[(size_t)ch];
		if (ctx) {
			int oid = -1;
			if (f.pending == OP_LOCK || f.pending == OP_UNLOCK || f.pending == OP_TRYLOCK) oid = mutex_of(f.obj).id;
			else if (f.pending == OP_CWAIT_ENTER || f.pending == OP_CWAIT_WAKE || f.pending == OP_BCAST || f.pending == OP_SIGNAL) oid = cond_of(f.obj).id;
			ctx->log.ev("s%lld%s f%d %s o%d t%d", (long long)S->steps, S->canonical ? "c" : "", ch, op_name(f.pending), oid, f.target);
		}
		if (!S->canonical) {
			S->out.trace.push_back(ch);
			int64_t v = ch; th = fnv1a(&v, sizeof v, th);
			int pk = (int)f.pending; th = fnv1a(&pk, sizeof pk, th);
		}
		S->steps++;
		if (!S->canonical) S->xsteps++;
		S->prev = ch;
		resume(ch);
	}
	S->out.steps = S->steps;
	S->out.fibers = (int)S->fibers.size();
	S->out.trace_hash = th;
	if (S->out.kind == SchedOutcome::OK && !S->misuse.empty()) { S->out.kind = SchedOutcome::MISUSE; S->out.detail = S->misuse; }
	if (ctx) {
		ctx->count("steps", S->steps);
		ctx->count("preemptions", S->out.preemptions);
		ctx->log.ev("sched-end kind=%d steps=%lld fibers=%d", (int)S->out.kind, (long long)S->steps, S->out.fibers);
	}
	for (auto &fp : S->fibers) put_stack(fp->stack, fp->stack_sz);
	SchedOutcome out = S->out;
	std::exception_ptr exc = S->exc;
	S = nullptr;
	st.reset();
	if (exc && out.kind == SchedOutcome::OK) std::rethrow_exception(exc);
	return out;
}

// ------------------------------------------------------------------------
// race detector
namespace {
struct Cell { int wf = -1; uint32_t wc = 0; std::vector<std::pair<int, uint32_t>> reads; };
struct Region { uintptr_t lo, hi; std::string name; int ordinal; };
struct RaceState {
	bool on = false;
	std::unordered_map<uintptr_t, Cell> shadow;
	std::map<uintptr_t, Region> regions;    // by lo; ordered map of addresses is only used for lookup
	std::vector<RaceReport> reports;
	std::set<std::string> reported;
	int64_t n = 0;
	int next_ordinal = 0;
};
RaceState R;

bool hb(int f, uint32_t c, const VClock &vc) { return (size_t)f < vc.size() && c <= vc[(size_t)f]; }

std::string describe(uintptr_t a) {
	auto it = R.regions.upper_bound(a);
	if (it != R.regions.begin()) {
		--it;
		if (a >= it->second.lo && a < it->second.hi) {
			char b[200];
			snprintf(b, sizeof b, "%s+%llu", it->second.name.c_str(), (unsigned long long)(a - it->second.lo));
			return b;
		}
	}
	if (S) for (auto &fp : S->fibers)
		if (a >= (uintptr_t)fp->stack && a < (uintptr_t)fp->stack + fp->stack_sz) {
			char b[64]; snprintf(b, sizeof b, "stack(f%d)", fp->id); return b;
		}
	return "other";
}
} // namespace

void Race::reset() { R.shadow.clear(); R.regions.clear(); R.reports.clear(); R.reported.clear(); R.n = 0; R.next_ordinal = 0; }
void Race::enable(bool on) { R.on = on; }
bool Race::enabled() { return R.on; }
const std::vector<RaceReport> &Race::reports() { return R.reports; }
int64_t Race::accesses() { return R.n; }

void Race::region_alloc(const void *addr, size_t size, const char *cls) {
	if (!R.on || !S || !addr) return;
	uintptr_t lo = (uintptr_t)addr;
	for (uintptr_t a = lo; a < lo + size; a++) R.shadow.erase(a);
	// drop stale overlapping regions
	auto it = R.regions.lower_bound(lo);
	while (it != R.regions.end() && it->second.lo < lo + size) it = R.regions.erase(it);
	char b[64]; snprintf(b, sizeof b, "%s#%d", cls, R.next_ordinal);
	R.regions[lo] = Region{lo, lo + size, b, R.next_ordinal++};
}
void Race::name_region(const void *addr, size_t size, const std::string &name) {
	if (!R.on || !addr) return;
	uintptr_t lo = (uintptr_t)addr;
	R.regions[lo] = Region{lo, lo + size, name, -1};
}
void Race::region_free(const void *addr) {
	if (!R.on || !S || !addr) return;
	auto it = R.regions.find((uintptr_t)addr);
	if (it == R.regions.end()) return;
	// releasing a block conflicts with every access to it that is not ordered before the release
	if (S->cur >= 0) access(addr, it->second.hi - it->second.lo, true, "free");
	for (uintptr_t a = it->second.lo; a < it->second.hi; a++) R.shadow.erase(a);
	R.regions.erase(it);
}

void Race::access(const void *addr, size_t size, bool write, const char *origin) {
	if (!R.on || !S || S->cur < 0) return;
	// while a single fiber is alive while no created thread is un-joined, every access is ordered with everything before (join) and after (create)
	if (S->unjoined == 0) return;
	R.n++;
	Fiber &f = *S->fibers[(size_t)S->cur];
	if (f.vc.size() <= (size_t)f.id) f.vc.resize((size_t)f.id + 1, 0);
	uint32_t myc = f.vc[(size_t)f.id];
	uintptr_t a0 = (uintptr_t)addr;
	for (uintptr_t a = a0; a < a0 + size; a++) {
		Cell &c = R.shadow[a];
		const char *kind = nullptr; int other = -1;
		if (c.wf >= 0 && c.wf != f.id && !hb(c.wf, c.wc, f.vc)) { kind = write ? "write-after-write" : "read-after-write"; other = c.wf; }
		if (!kind && write)
			for (auto &rd : c.reads) if (rd.first != f.id && !hb(rd.first, rd.second, f.vc)) { kind = "write-after-read"; other = rd.first; break; }
		if (kind) {
			std::string where = describe(a);
			// one report per object class (strip the byte offset so the signature stays small)
			std::string obj = where.substr(0, where.find('+'));
			std::string key = obj;
			if (!R.reported.count(key)) {
				R.reported.insert(key);
				char b[400];
				snprintf(b, sizeof b, "%s on %s by f%d (%s) vs f%d, unordered by happens-before", kind, where.c_str(), f.id, origin, other);
				R.reports.push_back(RaceReport{obj, b});
				if (S->ctx) S->ctx->log.ev("race %s %s f%d f%d", kind, where.c_str(), f.id, other);
			}
		}
		if (write) { c.wf = f.id; c.wc = myc; c.reads.clear(); }
		else {
			bool found = false;
			for (auto &rd : c.reads) if (rd.first == f.id) { rd.second = myc; found = true; break; }
			if (!found) c.reads.emplace_back(f.id, myc);
		}
	}
}

} // namespace psv

// ------------------------------------------------------------------------
// link-time wrappers (--wrap=sym): __wrap_sym is what the repository objects call
using namespace psv;

extern "C" {

int __real_pthread_create(pthread_t *, const pthread_attr_t *, void *(*)(void *), void *);
int __real_pthread_join(pthread_t, void **);
int __real_pthread_detach(pthread_t);
void __real_pthread_exit(void *) __attribute__((noreturn));
pthread_t __real_pthread_self(void);
int __real_pthread_mutex_init(pthread_mutex_t *, const pthread_mutexattr_t *);
int __real_pthread_mutex_destroy(pthread_mutex_t *);
int __real_pthread_mutex_lock(pthread_mutex_t *);
int __real_pthread_mutex_trylock(pthread_mutex_t *);
int __real_pthread_mutex_unlock(pthread_mutex_t *);
int __real_pthread_cond_init(pthread_cond_t *, const pthread_condattr_t *);
int __real_pthread_cond_destroy(pthread_cond_t *);
int __real_pthread_cond_wait(pthread_cond_t *, pthread_mutex_t *);
int __real_pthread_cond_timedwait(pthread_cond_t *, pthread_mutex_t *, const struct timespec *);
int __real_pthread_cond_signal(pthread_cond_t *);
int __real_pthread_cond_broadcast(pthread_cond_t *);
int __real_sched_yield(void);
unsigned __real_sleep(unsigned);
int __real_usleep(useconds_t);
int __real_nanosleep(const struct timespec *, struct timespec *);
int __real_sched_setaffinity(pid_t, size_t, const cpu_set_t *);
int __real_pthread_attr_init(pthread_attr_t *);
int __real_pthread_attr_destroy(pthread_attr_t *);
bool psv_attr_affinity_unusable(const pthread_attr_t *a);
char *__real_getenv(const char *);
long __real_sysconf(int);
clock_t __real_clock(void);

#define ON_FIBER (S && S->cur >= 0)

int __wrap_pthread_create(pthread_t *t, const pthread_attr_t *attr, void *(*fn)(void *), void *arg) {
	if (!ON_FIBER) return __real_pthread_create(t, attr, fn, arg);
	if (psv_attr_affinity_unusable(attr)) { if (S->ctx) { S->ctx->count("fault:pthread_create_einval_affinity"); S->ctx->log.ev("pthread_create: EINVAL (attributes bind to a CPU the machine does not have)"); } return EINVAL; }
	sched_point(OP_CREATE);
	Fiber &me = *S->fibers[(size_t)S->cur];
	size_t ssz = 1u << 20;
	Fiber &c = new_fiber(ssz);
	c.fn = fn; c.arg = arg;
	c.vc = me.vc;
	S->unjoined++;
	vc_tick(me);
	if (S->ctx) S->ctx->log.ev("created f%d by f%d", c.id, me.id);
	*t = (pthread_t)(1000 + c.id);
	return 0;
}
int __wrap_pthread_join(pthread_t t, void **ret) {
	if (!ON_FIBER) return __real_pthread_join(t, ret);
	int id = (int)t - 1000;
	if (id < 0 || id >= (int)S->fibers.size()) { Sched::misuse("pthread_join of an invalid thread id"); return ESRCH; }
	sched_point(OP_JOIN, nullptr, nullptr, id);
	Fiber &me = *S->fibers[(size_t)S->cur];
	vc_join(me.vc, S->fibers[(size_t)id]->final_vc);
	S->unjoined--;
	if (ret) *ret = nullptr;
	return 0;
}
int __wrap_pthread_detach(pthread_t t) {
	if (!ON_FIBER) return __real_pthread_detach(t);
	return 0;
}
void __wrap_pthread_exit(void *r) {
	if (!ON_FIBER) __real_pthread_exit(r);
	sched_point(OP_EXIT);
	Fiber &me = *S->fibers[(size_t)S->cur];
	// a thread that exits while holding a mutex is API misuse
	for (auto &kv : S->mutexes) if (kv.second.owner == me.id) Sched::misuse("thread exited while holding a mutex");
	fiber_finish_and_leave(me);
	abort();
}
pthread_t __wrap_pthread_self(void) {
	if (!ON_FIBER) return __real_pthread_self();
	return (pthread_t)(1000 + S->cur);
}
int __wrap_pthread_mutex_init(pthread_mutex_t *m, const pthread_mutexattr_t *a) {
	if (!ON_FIBER) return __real_pthread_mutex_init(m, a);
	Mutex &mm = mutex_of(m); mm.owner = -1; mm.destroyed = false; mm.vc.clear();
	return 0;
}
int __wrap_pthread_mutex_destroy(pthread_mutex_t *m) {
	if (!ON_FIBER) return __real_pthread_mutex_destroy(m);
	Mutex &mm = mutex_of(m);
	if (mm.owner >= 0) { Sched::misuse("pthread_mutex_destroy of a locked mutex"); return EBUSY; }
	for (auto &fp : S->fibers)
		if (!fp->finished && ((fp->pending == OP_LOCK && fp->obj == m) || (fp->pending == OP_CWAIT_WAKE && fp->obj2 == m)))
			Sched::misuse("pthread_mutex_destroy while a thread still waits for the mutex");
	S->mutexes.erase(m);
	return 0;
}
int __wrap_pthread_mutex_lock(pthread_mutex_t *m) {
	if (!ON_FIBER) return __real_pthread_mutex_lock(m);
	sched_point(OP_LOCK, m);
	Fiber &me = *S->fibers[(size_t)S->cur];
	Mutex &mm = mutex_of(m);
	mm.owner = me.id;
	vc_join(me.vc, mm.vc);
	return 0;
}
int __wrap_pthread_mutex_trylock(pthread_mutex_t *m) {
	if (!ON_FIBER) return __real_pthread_mutex_trylock(m);
	sched_point(OP_TRYLOCK, m);
	Fiber &me = *S->fibers[(size_t)S->cur];
	Mutex &mm = mutex_of(m);
	if (mm.owner >= 0) return EBUSY;
	mm.owner = me.id;
	vc_join(me.vc, mm.vc);
	return 0;
}
int __wrap_pthread_mutex_unlock(pthread_mutex_t *m) {
	if (!ON_FIBER) return __real_pthread_mutex_unlock(m);
	sched_point(OP_UNLOCK, m);
	Fiber &me = *S->fibers[(size_t)S->cur];
	Mutex &mm = mutex_of(m);
	if (mm.owner != me.id) { Sched::misuse("pthread_mutex_unlock by a thread that does not hold the mutex"); return EPERM; }
	mm.vc = me.vc;
	vc_tick(me);
	mm.owner = -1;
	// a second scheduling point right after the release: threads waiting for this mutex may run before the
	// code that follows the unlock (otherwise that code would always win against them)
	sched_point(OP_YIELD);
	return 0;
}
int __wrap_pthread_cond_init(pthread_cond_t *c, const pthread_condattr_t *a) {
	if (!ON_FIBER) return __real_pthread_cond_init(c, a);
	Cond &cc = cond_of(c); cc.waiters.clear(); cc.destroyed = false;
	return 0;
}
int __wrap_pthread_cond_destroy(pthread_cond_t *c) {
	if (!ON_FIBER) return __real_pthread_cond_destroy(c);
	Cond &cc = cond_of(c);
	if (!cc.waiters.empty()) Sched::misuse("pthread_cond_destroy while threads wait on the condition variable");
	for (auto &fp : S->fibers)
		if (!fp->finished && fp->pending == OP_CWAIT_WAKE && fp->obj == c)
			Sched::misuse("pthread_cond_destroy while a thread has not yet returned from its wait");
	S->conds.erase(c);
	return 0;
}
static int cond_wait_common(pthread_cond_t *c, pthread_mutex_t *m, bool timed) {
	sched_point(OP_CWAIT_ENTER, c, m);
	Fiber &me = *S->fibers[(size_t)S->cur];
	Mutex &mm = mutex_of(m);
	if (mm.owner != me.id) { Sched::misuse("pthread_cond_wait without holding the mutex"); return EPERM; }
	mm.vc = me.vc; vc_tick(me); mm.owner = -1;
	cond_of(c).waiters.push_back(me.id);
	me.woken = false; me.timed = timed; me.timedout = false;
	if (timed && S->cfg.timedwait_timeouts && S->rng.chance(0.3)) me.timedout = true;
	sched_point(OP_CWAIT_WAKE, c, m);
	Fiber &me2 = *S->fibers[(size_t)S->cur];
	Mutex &mm2 = mutex_of(m);
	mm2.owner = me2.id;
	vc_join(me2.vc, mm2.vc);
	bool to = me2.timedout && !me2.woken;
	if (to) {
		Cond &cc = cond_of(c);
		for (size_t i = 0; i < cc.waiters.size(); i++) if (cc.waiters[i] == me2.id) { cc.waiters.erase(cc.waiters.begin() + (long)i); break; }
	}
	me2.timed = false; me2.timedout = false;
	return to ? ETIMEDOUT : 0;
}
int __wrap_pthread_cond_wait(pthread_cond_t *c, pthread_mutex_t *m) {
	if (!ON_FIBER) return __real_pthread_cond_wait(c, m);
	return cond_wait_common(c, m, false);
}
int __wrap_pthread_cond_timedwait(pthread_cond_t *c, pthread_mutex_t *m, const struct timespec *ts) {
	if (!ON_FIBER) return __real_pthread_cond_timedwait(c, m, ts);
	return cond_wait_common(c, m, true);
}
int __wrap_pthread_cond_broadcast(pthread_cond_t *c) {
	if (!ON_FIBER) return __real_pthread_cond_broadcast(c);
	sched_point(OP_BCAST, c);
	Cond &cc = cond_of(c);
	for (int w : cc.waiters) S->fibers[(size_t)w]->woken = true;
	cc.waiters.clear();
	return 0;
}
int __wrap_pthread_cond_signal(pthread_cond_t *c) {
	if (!ON_FIBER) return __real_pthread_cond_signal(c);
	sched_point(OP_SIGNAL, c);
	Cond &cc = cond_of(c);
	if (!cc.waiters.empty()) {
		// which waiter wakes is the simulator's choice (POSIX: "at least one")
		size_t k = (S->cfg.policy == "explicit") ? 0 : S->rng.below(cc.waiters.size());
		S->fibers[(size_t)cc.waiters[k]]->woken = true;
		cc.waiters.erase(cc.waiters.begin() + (long)k);
	}
	return 0;
}
int __wrap_sched_yield(void) {
	if (!ON_FIBER) return __real_sched_yield();
	sched_point(OP_YIELD);
	return 0;
}
unsigned __wrap_sleep(unsigned s) {
	if (!ON_FIBER) return __real_sleep(s);
	sched_point(OP_YIELD);
	return 0;
}
int __wrap_usleep(useconds_t u) {
	if (!ON_FIBER) return __real_usleep(u);
	sched_point(OP_YIELD);
	return 0;
}
int __wrap_nanosleep(const struct timespec *a, struct timespec *b) {
	if (!ON_FIBER) return __real_nanosleep(a, b);
	sched_point(OP_YIELD);
	return 0;
}

// knobs the harness sets per run
int psv_env_threads = 0;        // what GOTO_NUM_THREADS / OMP_NUM_THREADS say (0: unset)
int psv_affinity_fails = 0;     // sched_setaffinity returns -1
static long psv_clock_ticks = 0;

int psv_ncpus = 0;              // CPUs of the simulated machine (0: any CPU number is usable)

// a CPU set is usable on the simulated machine if it names at least one existing CPU
static bool cpuset_usable(size_t n, const cpu_set_t *s) {
	if (psv_ncpus <= 0 || !s) return true;
	for (int c = 0; c < psv_ncpus && (size_t)c < n * 8; c++) if (CPU_ISSET_S(c, n, s)) return true;
	return false;
}
// affinity stored in thread attributes (pthread_attr_setaffinity_np), by attribute object
static std::map<const void *, std::vector<unsigned char>> g_attr_affinity;

int __wrap_sched_setaffinity(pid_t p, size_t n, const cpu_set_t *s) {
	if (!S) return __real_sched_setaffinity(p, n, s);
	if (psv_affinity_fails) { if (S->ctx) S->ctx->count("fault:setaffinity_fail"); errno = EINVAL; return -1; }
	if (!cpuset_usable(n, s)) { if (S->ctx) S->ctx->count("fault:setaffinity_no_such_cpu"); errno = EINVAL; return -1; }
	return 0;
}
int __wrap_pthread_setaffinity_np(pthread_t, size_t n, const cpu_set_t *s) {
	if (psv_affinity_fails || !cpuset_usable(n, s)) { if (S && S->ctx) S->ctx->count("fault:setaffinity_no_such_cpu"); return EINVAL; }
	return 0;
}
int __wrap_pthread_attr_init(pthread_attr_t *a) {
	g_attr_affinity.erase(a);
	return __real_pthread_attr_init(a);
}
int __wrap_pthread_attr_destroy(pthread_attr_t *a) {
	g_attr_affinity.erase(a);
	return __real_pthread_attr_destroy(a);
}
int __wrap_pthread_attr_setaffinity_np(pthread_attr_t *a, size_t n, const cpu_set_t *s) {
	if (!s || !n) { g_attr_affinity.erase(a); return 0; }
	g_attr_affinity[a].assign((const unsigned char *)s, (const unsigned char *)s + n);
	return 0;
}
// pthread_create with attributes whose CPU set names no existing CPU creates no thread (EINVAL, as glibc does)
bool psv_attr_affinity_unusable(const pthread_attr_t *a) {
	if (!a) return false;
	auto it = g_attr_affinity.find(a);
	if (it == g_attr_affinity.end()) return false;
	return !cpuset_usable(it->second.size(), (const cpu_set_t *)it->second.data());
}
// The simulated environment: which of the two variables exist and what their text is.
//   psv_env_form 0: both set to the worker count (default)   1: only GOTO_NUM_THREADS   2: only OMP_NUM_THREADS
//                3: both set, OMP_NUM_THREADS to another value (GOTO_NUM_THREADS has precedence)
//                4: neither set: the worker count is the number of online CPUs of the simulated machine
//   psv_env_style 0: "4"   1: " 4"   2: "+4"   3: "04"      (all denote the same count to atoi/strtol)
int psv_env_form = 0, psv_env_style = 0, psv_env_other = 1;
char *__wrap_getenv(const char *name) {
	if (psv_env_threads > 0 && name) {
		bool is_goto = !strcmp(name, "GOTO_NUM_THREADS"), is_omp = !strcmp(name, "OMP_NUM_THREADS");
		if (is_goto || is_omp) {
			if (psv_env_form == 4) return nullptr;
			if (psv_env_form == 1 && is_omp) return nullptr;
			if (psv_env_form == 2 && is_goto) return nullptr;
			static char buf[2][24];
			int v = (psv_env_form == 3 && is_omp) ? psv_env_other : psv_env_threads;
			static const char *fmt[] = {"%d", " %d", "+%d", "0%d"};
			snprintf(buf[is_omp], sizeof buf[0], fmt[psv_env_style & 3], v);
			return buf[is_omp];
		}
	}
	return __real_getenv(name);
}
long __wrap_sysconf(int name) {
	// the online CPU count of the simulated machine, never the real one
	if (psv_env_threads > 0 && name == _SC_NPROCESSORS_ONLN) return psv_env_form == 4 ? psv_env_threads : (psv_ncpus > 0 ? psv_ncpus : 4);
	return __real_sysconf(name);
}
clock_t __wrap_clock(void) {
	if (!S) return __real_clock();
	return (clock_t)(++psv_clock_ticks);
}

// ---- compile-only ThreadSanitizer instrumentation callbacks ----
// The race variant compiles the repository's threaded C files with
// -fsanitize=thread but links no TSan runtime: these definitions are the
// runtime, and feed every instrumented access to the detector above.
void __tsan_init(void) {}
void __tsan_func_entry(void *) {}
void __tsan_func_exit(void *) {}
#define RD(n) void __tsan_read##n(void *a) { Race::access(a, n, false, "load"); } \
              void __tsan_unaligned_read##n(void *a) { Race::access(a, n, false, "load"); }
#define WR(n) void __tsan_write##n(void *a) { Race::access(a, n, true, "store"); } \
              void __tsan_unaligned_write##n(void *a) { Race::access(a, n, true, "store"); }
RD(1) RD(2) RD(4) RD(8) RD(16) WR(1) WR(2) WR(4) WR(8) WR(16)
void __tsan_read_range(void *a, long n) { Race::access(a, (size_t)n, false, "load-range"); }
void __tsan_write_range(void *a, long n) { Race::access(a, (size_t)n, true, "store-range"); }
void __tsan_vptr_update(void *, void *) {}


} // extern "C"
