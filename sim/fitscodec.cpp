// Independent FITS codec for the photospline layout: see fitscodec.h.
#include "fitscodec.h"
#include "prng.h"
#include <cerrno>
#include <cinttypes>
#include <cmath>
#include <cstdio>
#include <cstdlib>
#include <cstring>

namespace psv {

namespace {

const size_t BLOCK = 2880;

void put_be32(Bytes &b, uint32_t v) { for (int i = 3; i >= 0; i--) b.push_back((uint8_t)(v >> (8 * i))); }
void put_be64(Bytes &b, uint64_t v) { for (int i = 7; i >= 0; i--) b.push_back((uint8_t)(v >> (8 * i))); }
uint32_t get_be32(const uint8_t *p) { return ((uint32_t)p[0] << 24) | ((uint32_t)p[1] << 16) | ((uint32_t)p[2] << 8) | p[3]; }
uint64_t get_be64(const uint8_t *p) { return ((uint64_t)get_be32(p) << 32) | get_be32(p + 4); }

std::string pad80(std::string s) {
	if (s.size() > 80) s.resize(80);
	s.append(80 - s.size(), ' ');
	return s;
}
std::string key8(const std::string &key) {
	std::string k = key.substr(0, 8);
	k.append(8 - k.size(), ' ');
	return k;
}
bool needs_hierarch(const std::string &key) { return key.size() > 8 || key.find(' ') != std::string::npos; }

std::string quote(const std::string &v) {
	std::string q = "'";
	for (char c : v) { q += c; if (c == '\'') q += '\''; }
	// FITS: a string value is at least 8 characters wide
	size_t content = q.size() - 1;
	if (content < 8) q.append(8 - content, ' ');
	q += '\'';
	return q;
}

void pad_block(Bytes &b, uint8_t fill) { while (b.size() % BLOCK) b.push_back(fill); }

void put_header(Bytes &out, const std::vector<std::string> &cards) {
	for (auto &c : cards) { std::string p = pad80(c); out.insert(out.end(), p.begin(), p.end()); }
	std::string e = card_end();
	out.insert(out.end(), e.begin(), e.end());
	pad_block(out, ' ');
}

bool parse_int(const std::string &s, int64_t &v) {
	if (s.empty()) return false;
	char *end = nullptr;
	errno = 0;
	long long x = strtoll(s.c_str(), &end, 10);
	if (errno || end == s.c_str()) return false;
	while (*end == ' ') end++;
	if (*end) return false;
	v = x;
	return true;
}

} // namespace

std::string rstrip(const std::string &s) {
	size_t n = s.size();
	while (n && s[n - 1] == ' ') n--;
	return s.substr(0, n);
}

std::string real_literal(double v) {
	char buf[64];
	for (int prec = 1; prec <= 17; prec++) {
		snprintf(buf, sizeof buf, "%.*G", prec, v);
		if (strtod(buf, nullptr) == v) break;
	}
	std::string s = buf;
	if (s.find('.') == std::string::npos && s.find('E') == std::string::npos) s += '.';
	else if (s.find('.') == std::string::npos) { size_t e = s.find('E'); s.insert(e, "."); }
	return s;
}

std::string card_logical(const std::string &key, bool v, const std::string &comment) {
	return card_literal(key, v ? "T" : "F", comment);
}
std::string card_int(const std::string &key, long long v, const std::string &comment) {
	return card_literal(key, std::to_string(v), comment);
}
std::string card_literal(const std::string &key, const std::string &text, const std::string &comment) {
	std::string c;
	if (needs_hierarch(key)) c = "HIERARCH " + key + " = " + text;
	else {
		c = key8(key) + "= ";
		if (text.size() < 20) c.append(20 - text.size(), ' ');
		c += text;
	}
	if (!comment.empty()) c += " / " + comment;
	return pad80(c);
}
std::string card_string(const std::string &key, const std::string &v, const std::string &comment) {
	std::string c;
	if (needs_hierarch(key)) c = "HIERARCH " + key + " = " + quote(v);
	else c = key8(key) + "= " + quote(v);
	if (!comment.empty()) {
		if (c.size() < 30) c.append(30 - c.size(), ' ');
		c += " / " + comment;
	}
	return pad80(c);
}
std::string card_comment(const std::string &text) { return pad80("COMMENT " + text); }
std::string card_end() { return pad80("END"); }

// ---------------------------------------------------------------- exact text forms
std::string floats_to_hex(const std::vector<float> &v) {
	std::string s;
	s.reserve(v.size() * 8);
	char buf[12];
	for (float f : v) { uint32_t u; memcpy(&u, &f, 4); snprintf(buf, sizeof buf, "%08x", u); s += buf; }
	return s;
}
bool floats_from_hex(const std::string &s, std::vector<float> &v) {
	if (s.size() % 8) return false;
	v.clear();
	v.reserve(s.size() / 8);
	for (size_t i = 0; i < s.size(); i += 8) {
		uint32_t u = 0;
		for (size_t k = 0; k < 8; k++) {
			char c = s[i + k];
			int d = c >= '0' && c <= '9' ? c - '0' : c >= 'a' && c <= 'f' ? c - 'a' + 10 : c >= 'A' && c <= 'F' ? c - 'A' + 10 : -1;
			if (d < 0) return false;
			u = (u << 4) | (uint32_t)d;
		}
		float f; memcpy(&f, &u, 4);
		v.push_back(f);
	}
	return true;
}
Json doubles_to_json(const std::vector<double> &v) {
	Json a = Json::array();
	for (double d : v) a.push(jhex(d));
	return a;
}
std::vector<double> doubles_from_json(const Json &j) {
	std::vector<double> v;
	for (auto &e : j.a) v.push_back(e.num());
	return v;
}

// ---------------------------------------------------------------- TableSpec
Json TableSpec::to_json() const {
	Json j = Json::object();
	j["ndim"] = Json((long long)ndim);
	Json o = Json::array(); for (auto x : order) o.push(Json((long long)x));
	j["order"] = o;
	Json n = Json::array(); for (auto x : naxes) n.push(Json((long long)x));
	j["naxes"] = n;
	Json k = Json::array(); for (auto &kv : knots) k.push(doubles_to_json(kv));
	j["knots"] = k;
	j["coeff"] = Json(floats_to_hex(coeff));
	if (has_extents) j["extents"] = doubles_to_json(extents);
	if (has_periods) j["periods"] = doubles_to_json(periods);
	Json a = Json::array();
	for (auto &e : aux) {
		Json x = Json::array();
		x.push(Json(e.key)); x.push(Json(e.value)); x.push(Json(e.literal)); x.push(Json(e.comment));
		a.push(x);
	}
	j["aux"] = a;
	if (single_order) j["single_order"] = Json(true);
	if (no_type) j["no_type"] = Json(true);
	if (no_comments) j["no_comments"] = Json(true);
	if (ext_reversed) j["ext_reversed"] = Json(true);
	return j;
}

bool TableSpec::from_json(const Json &j, TableSpec &t, std::string &err) {
	t = TableSpec();
	if (!j.is_obj()) { err = "spec: not an object"; return false; }
	t.ndim = (uint32_t)j.geti("ndim");
	for (auto &x : j["order"].a) t.order.push_back((uint32_t)x.integer());
	for (auto &x : j["naxes"].a) t.naxes.push_back((uint64_t)x.integer());
	for (auto &x : j["knots"].a) t.knots.push_back(doubles_from_json(x));
	if (!floats_from_hex(j.gets("coeff"), t.coeff)) { err = "spec: bad coeff hex"; return false; }
	if (j.has("extents")) { t.has_extents = true; t.extents = doubles_from_json(j["extents"]); }
	if (j.has("periods")) { t.has_periods = true; t.periods = doubles_from_json(j["periods"]); }
	for (auto &x : j["aux"].a) {
		AuxEntry e;
		if (x.size() < 2) { err = "spec: bad aux entry"; return false; }
		e.key = x.a[0].s; e.value = x.a[1].s;
		if (x.size() > 2) e.literal = x.a[2].boolean();
		if (x.size() > 3) e.comment = x.a[3].s;
		t.aux.push_back(e);
	}
	t.single_order = j.getb("single_order");
	t.no_type = j.getb("no_type");
	t.no_comments = j.getb("no_comments");
	t.ext_reversed = j.getb("ext_reversed");
	if (t.order.size() != t.ndim || t.naxes.size() != t.ndim || t.knots.size() != t.ndim) { err = "spec: array counts differ from ndim"; return false; }
	if (t.coeff.size() != t.ncoeffs()) { err = "spec: coefficient count differs from prod(naxes)"; return false; }
	if (t.has_extents && t.extents.size() != 2 * (size_t)t.ndim) { err = "spec: extents size"; return false; }
	if (t.has_periods && t.periods.size() != t.ndim) { err = "spec: periods size"; return false; }
	return true;
}

uint64_t TableSpec::digest() const {
	uint64_t h = 0xcbf29ce484222325ULL;
	auto u64 = [&](uint64_t v) { h = fnv1a(&v, 8, h); };
	u64(ndim);
	for (auto x : order) u64(x);
	for (auto x : naxes) u64(x);
	for (auto &k : knots) { u64(k.size()); if (!k.empty()) h = fnv1a(k.data(), k.size() * 8, h); }
	u64(coeff.size());
	if (!coeff.empty()) h = fnv1a(coeff.data(), coeff.size() * 4, h);
	u64(has_extents ? extents.size() : 0);
	if (has_extents && !extents.empty()) h = fnv1a(extents.data(), extents.size() * 8, h);
	u64(aux.size());
	for (auto &e : aux) { h = fnv1a(e.key, h); h = fnv1a("=", 1, h); h = fnv1a(rstrip(e.value), h); h = fnv1a(";", 1, h); }
	return h;
}

bool well_formed(const TableSpec &t, std::string &why) {
	if (t.ndim < 1) { why = "ndim<1"; return false; }
	if (t.order.size() != t.ndim || t.naxes.size() != t.ndim || t.knots.size() != t.ndim) { why = "array-counts"; return false; }
	for (uint32_t i = 0; i < t.ndim; i++) {
		uint64_t nk = t.knots[i].size();
		if (nk < (uint64_t)t.order[i] + 1 + t.naxes[i] || t.naxes[i] != nk - t.order[i] - 1) { why = "shape"; return false; }
		if (t.naxes[i] < (uint64_t)t.order[i] + 1) { why = "shape"; return false; }
	}
	for (uint32_t i = 0; i < t.ndim; i++) {
		for (double k : t.knots[i]) if (!std::isfinite(k)) { why = "knots-nonfinite"; return false; }
		for (size_t k = 1; k < t.knots[i].size(); k++) if (t.knots[i][k] < t.knots[i][k - 1]) { why = "knots-unsorted"; return false; }
	}
	if (t.coeff.size() != t.ncoeffs()) { why = "sizes"; return false; }
	return true;
}

// ---------------------------------------------------------------- writer
Bytes encode_fits(const TableSpec &t) {
	Bytes out;
	std::vector<std::string> h;
	h.push_back(card_logical("SIMPLE", true, "file does conform to FITS standard"));
	h.push_back(card_int("BITPIX", t.image_bitpix ? t.image_bitpix : t.double_image ? -64 : -32, "number of bits per data pixel"));
	h.push_back(card_int("NAXIS", t.ndim, "number of data axes"));
	for (uint32_t i = 0; i < t.ndim; i++)
		h.push_back(card_int("NAXIS" + std::to_string(i + 1), (long long)t.naxes[t.ndim - 1 - i], "length of data axis " + std::to_string(i + 1)));
	h.push_back(card_logical("EXTEND", true, "FITS dataset may contain extensions"));
	if (!t.no_comments) {
		h.push_back(card_comment("  FITS (Flexible Image Transport System) format is defined in 'Astronomy"));
		h.push_back(card_comment("  and Astrophysics', volume 376, page 359; bibcode: 2001A&A...376..359H"));
	}
	if (!t.no_type) h.push_back(card_string("TYPE", "Spline Coefficient Table"));
	if (t.single_order && t.ndim) h.push_back(card_int("ORDER", t.order[0], "B-Spline Order"));
	else for (uint32_t i = 0; i < t.ndim; i++) h.push_back(card_int("ORDER" + std::to_string(i), t.order[i], "B-Spline Order"));
	if (t.has_periods)
		for (uint32_t i = 0; i < t.ndim; i++) h.push_back(card_literal("PERIOD" + std::to_string(i), real_literal(t.periods[i])));
	for (auto &e : t.aux)
		h.push_back(e.literal ? card_literal(e.key, e.value, e.comment) : card_string(e.key, e.value, e.comment));
	put_header(out, h);
	if (t.image_bitpix == 8) for (float f : t.coeff) out.push_back((uint8_t)(std::isfinite(f) ? (long)std::fabs(f) % 200 : 0));
	else if (t.image_bitpix == 16) for (float f : t.coeff) { long v = std::isfinite(f) ? (long)f % 30000 : 0; uint16_t u = (uint16_t)(int16_t)v; out.push_back((uint8_t)(u >> 8)); out.push_back((uint8_t)u); }
	else if (t.image_bitpix == 32) for (float f : t.coeff) { long v = std::isfinite(f) ? (long)f % 1000000 : 0; put_be32(out, (uint32_t)(int32_t)v); }
	else if (t.double_image) for (float f : t.coeff) { double dv = (double)f; uint64_t u; memcpy(&u, &dv, 8); put_be64(out, u); }
	else for (float f : t.coeff) { uint32_t u; memcpy(&u, &f, 4); put_be32(out, u); }
	pad_block(out, 0);

	auto ext = [&](const std::string &name, const std::vector<double> &v) {
		std::vector<std::string> e;
		e.push_back(card_string("XTENSION", "IMAGE", "IMAGE extension"));
		e.push_back(card_int("BITPIX", -64, "number of bits per data pixel"));
		e.push_back(card_int("NAXIS", 1, "number of data axes"));
		e.push_back(card_int("NAXIS1", (long long)v.size(), "length of data axis 1"));
		e.push_back(card_int("PCOUNT", 0, "required keyword; must = 0"));
		e.push_back(card_int("GCOUNT", 1, "required keyword; must = 1"));
		e.push_back(card_string("EXTNAME", name));
		put_header(out, e);
		for (double d : v) { uint64_t u; memcpy(&u, &d, 8); put_be64(out, u); }
		pad_block(out, 0);
	};
	std::vector<std::pair<std::string, const std::vector<double> *>> exts;
	for (uint32_t i = 0; i < t.ndim; i++) exts.push_back({"KNOTS" + std::to_string(i), &t.knots[i]});
	if (t.has_extents) exts.push_back({"EXTENTS", &t.extents});
	if (t.ext_reversed) for (size_t i = exts.size(); i-- > 0;) ext(exts[i].first, *exts[i].second);
	else for (auto &e : exts) ext(e.first, *e.second);
	return out;
}

// ---------------------------------------------------------------- scanner
Card parse_card(const std::string &raw_in) {
	Card c;
	c.raw = pad80(raw_in);
	const std::string &r = c.raw;
	std::string k = rstrip(r.substr(0, 8));
	size_t vpos = std::string::npos;
	if (k == "HIERARCH") {
		size_t eq = r.find('=', 9);
		if (eq != std::string::npos) {
			std::string name = r.substr(9, eq - 9);
			size_t a = name.find_first_not_of(' ');
			name = a == std::string::npos ? "" : rstrip(name.substr(a));
			c.key = name;
			vpos = eq + 1;
		} else c.key = k;
	} else {
		c.key = k;
		if (r[8] == '=' && r[9] == ' ') vpos = 10;
	}
	if (vpos == std::string::npos || c.key == "COMMENT" || c.key == "HISTORY" || c.key.empty()) return c;
	size_t p = r.find_first_not_of(' ', vpos);
	if (p == std::string::npos) { c.has_value = true; return c; }   // null value
	c.has_value = true;
	if (r[p] == '\'') {
		c.is_string = true;
		size_t i = p + 1;
		std::string v;
		while (i < r.size()) {
			if (r[i] == '\'') {
				if (i + 1 < r.size() && r[i + 1] == '\'') { v += '\''; i += 2; continue; }
				i++;
				break;
			}
			v += r[i++];
		}
		c.value = v;
		size_t sl = r.find('/', i);
		if (sl != std::string::npos) c.comment = rstrip(r.substr(sl + 1));
	} else {
		size_t sl = r.find('/', p);
		std::string v = sl == std::string::npos ? r.substr(p) : r.substr(p, sl - p);
		c.value = rstrip(v);
		if (sl != std::string::npos) c.comment = rstrip(r.substr(sl + 1));
	}
	return c;
}

bool scan_hdus(const Bytes &img, std::vector<Hdu> &out, std::string &err) {
	out.clear();
	size_t off = 0;
	while (off < img.size()) {
		Hdu h;
		h.hdr_off = off;
		bool end = false;
		size_t p = off;
		while (!end) {
			if (p + BLOCK > img.size()) {
				err = "header of HDU " + std::to_string(out.size()) + " runs past the end of the image";
				return false;
			}
			for (size_t i = 0; i < 36 && !end; i++) {
				const uint8_t *cp = img.data() + p + 80 * i;
				// a header runs into binary data when its END card is missing: stop there
				// instead of parsing the rest of the file as cards
				int nontext = 0;
				for (int b = 0; b < 80; b++) if (cp[b] < 0x20 || cp[b] > 0x7e) nontext++;
				if (nontext >= 16) { err = "header of HDU " + std::to_string(out.size()) + " runs into binary data (no END card)"; return false; }
				std::string raw(reinterpret_cast<const char *>(cp), 80);
				if (rstrip(raw) == "END") { end = true; h.has_end = true; h.end_card = h.cards.size(); break; }
				h.cards.push_back(parse_card(raw));
			}
			p += BLOCK;
			if (!end && h.cards.size() > 36 * 1000) { err = "no END card"; return false; }
		}
		h.data_off = p;
		int64_t v = 0;
		const Card *c;
		bool first = out.empty();
		if (first) {
			c = h.cards.empty() ? nullptr : &h.cards[0];
			if (!c || c->key != "SIMPLE") { err = "primary header does not start with SIMPLE"; return false; }
		} else {
			c = h.cards.empty() ? nullptr : &h.cards[0];
			if (!c || c->key != "XTENSION") { err = "extension header does not start with XTENSION"; return false; }
			h.xtension = rstrip(c->value);
		}
		if (!(c = h.find("BITPIX")) || !parse_int(c->value, h.bitpix)) { err = "BITPIX missing or not an integer"; return false; }
		int64_t nax = 0;
		if (!(c = h.find("NAXIS")) || !parse_int(c->value, nax) || nax < 0 || nax > 999) { err = "NAXIS missing or invalid"; return false; }
		uint64_t n = nax ? 1 : 0;
		for (int64_t i = 1; i <= nax; i++) {
			if (!(c = h.find("NAXIS" + std::to_string(i))) || !parse_int(c->value, v) || v < 0) { err = "NAXIS" + std::to_string(i) + " missing or invalid"; return false; }
			h.naxis.push_back(v);
			if (v && n > (uint64_t)1 << 62) { err = "data size overflows"; return false; }
			if (v > 0 && n > ((uint64_t)1 << 62) / (uint64_t)v) { err = "data size overflows"; return false; }
			n *= (uint64_t)v;
		}
		int64_t pcount = 0, gcount = 1;
		if ((c = h.find("PCOUNT"))) parse_int(c->value, pcount);
		if ((c = h.find("GCOUNT"))) parse_int(c->value, gcount);
		if ((c = h.find("EXTNAME"))) h.extname = rstrip(c->value);
		uint64_t bytes_per = (uint64_t)(h.bitpix < 0 ? -h.bitpix : h.bitpix) / 8;
		if (pcount < 0 || gcount < 0) { err = "PCOUNT/GCOUNT negative"; return false; }
		// sizes no image in these simulations can have are "past the end" (and must not wrap the products below)
		if (n > ((uint64_t)1 << 40) || (uint64_t)gcount > ((uint64_t)1 << 20) || (uint64_t)pcount > ((uint64_t)1 << 40)) {
			h.data_len = (uint64_t)1 << 62;
			h.next_off = img.size();
			out.push_back(h);
			err = "data of HDU " + std::to_string(out.size() - 1) + " runs past the end of the image";
			return false;
		}
		h.data_len = bytes_per * (uint64_t)gcount * ((uint64_t)pcount + n);
		uint64_t padded = (h.data_len + BLOCK - 1) / BLOCK * BLOCK;
		if (padded > img.size() || h.data_off + padded > img.size()) {
			h.next_off = img.size();
			out.push_back(h);
			err = "data of HDU " + std::to_string(out.size() - 1) + " runs past the end of the image";
			return false;
		}
		h.next_off = h.data_off + (size_t)padded;
		off = h.next_off;
		out.push_back(h);
	}
	if (out.empty()) { err = "empty image"; return false; }
	return true;
}

// ---------------------------------------------------------------- parser
bool decode_fits(const Bytes &img, TableSpec &t, std::string &err) {
	t = TableSpec();
	if (img.size() % BLOCK) { err = "image size is not a multiple of 2880"; return false; }
	std::vector<Hdu> hdus;
	if (!scan_hdus(img, hdus, err)) return false;
	const Hdu &p = hdus[0];
	const Card *c = p.find("SIMPLE");
	if (!c || c->value != "T") { err = "SIMPLE is not T"; return false; }
	if (p.bitpix != -32) { err = "primary BITPIX is not -32"; return false; }
	if (p.naxis.empty()) { err = "primary NAXIS is 0"; return false; }
	t.ndim = (uint32_t)p.naxis.size();
	t.naxes.resize(t.ndim);
	for (uint32_t i = 0; i < t.ndim; i++) t.naxes[i] = (uint64_t)p.naxis[t.ndim - 1 - i];
	uint64_t n = t.ncoeffs();
	if (p.data_len != n * 4) { err = "primary data length mismatch"; return false; }
	t.coeff.resize(n);
	for (uint64_t i = 0; i < n; i++) { uint32_t u = get_be32(img.data() + p.data_off + 4 * i); memcpy(&t.coeff[i], &u, 4); }
	for (size_t i = p.data_off + n * 4; i < p.next_off; i++) if (img[i]) { err = "primary data padding is not zero"; return false; }
	// orders
	t.order.assign(t.ndim, 0);
	int64_t v = 0;
	if ((c = p.find("ORDER"))) {
		if (c->is_string || !parse_int(c->value, v) || v < 0) { err = "ORDER is not a non-negative integer"; return false; }
		t.single_order = true;
		for (auto &o : t.order) o = (uint32_t)v;
	} else {
		for (uint32_t i = 0; i < t.ndim; i++) {
			c = p.find("ORDER" + std::to_string(i));
			if (!c || c->is_string || !parse_int(c->value, v) || v < 0) { err = "ORDER" + std::to_string(i) + " missing or not a non-negative integer"; return false; }
			t.order[i] = (uint32_t)v;
		}
	}
	// periods: all or none
	size_t nper = 0;
	for (uint32_t i = 0; i < t.ndim; i++) if (p.find("PERIOD" + std::to_string(i))) nper++;
	if (nper == t.ndim) {
		t.has_periods = true;
		for (uint32_t i = 0; i < t.ndim; i++) {
			std::string s = p.find("PERIOD" + std::to_string(i))->value;
			for (auto &ch : s) if (ch == 'D' || ch == 'd') ch = 'E';
			t.periods.push_back(strtod(s.c_str(), nullptr));
		}
	} else if (nper) { err = "some but not all PERIODn cards present"; return false; }
	t.no_type = p.find("TYPE") == nullptr;
	t.no_comments = p.find("COMMENT") == nullptr;
	// auxiliary cards: everything that is not structural
	for (auto &cd : p.cards) {
		const std::string &k = cd.key;
		if (!cd.has_value) continue;
		if (k == "SIMPLE" || k == "BITPIX" || k == "NAXIS" || k == "EXTEND" || k == "TYPE" || k == "ORDER") continue;
		auto numbered = [&](const char *prefix) {
			size_t L = strlen(prefix);
			if (k.compare(0, L, prefix) != 0 || k.size() == L) return false;
			for (size_t i = L; i < k.size(); i++) if (k[i] < '0' || k[i] > '9') return false;
			return true;
		};
		if (numbered("NAXIS") || numbered("ORDER") || numbered("PERIOD")) continue;
		AuxEntry e;
		e.key = k; e.value = cd.value; e.literal = !cd.is_string; e.comment = cd.comment;
		t.aux.push_back(e);
	}
	// extensions, found by name
	t.knots.assign(t.ndim, std::vector<double>());
	std::vector<bool> have(t.ndim, false);
	auto read_doubles = [&](const Hdu &h, std::vector<double> &out) -> bool {
		if (h.xtension != "IMAGE") { err = "extension " + h.extname + " is not an IMAGE"; return false; }
		if (h.bitpix != -64 || h.naxis.size() != 1) { err = "extension " + h.extname + " is not a 1-d double image"; return false; }
		uint64_t m = (uint64_t)h.naxis[0];
		if (h.data_len != m * 8) { err = "extension data length mismatch"; return false; }
		out.resize(m);
		for (uint64_t i = 0; i < m; i++) { uint64_t u = get_be64(img.data() + h.data_off + 8 * i); memcpy(&out[i], &u, 8); }
		return true;
	};
	size_t first_ext_seen = 0;
	for (size_t i = 1; i < hdus.size(); i++) {
		const Hdu &h = hdus[i];
		if (h.extname == "EXTENTS") {
			if (t.has_extents) continue;   // first one wins, as a by-name search does
			if (!read_doubles(h, t.extents)) return false;
			if (t.extents.size() != 2 * (size_t)t.ndim) { err = "EXTENTS does not hold 2*ndim values"; return false; }
			t.has_extents = true;
			if (!first_ext_seen) first_ext_seen = i;
		} else if (h.extname.compare(0, 5, "KNOTS") == 0) {
			int64_t d = -1;
			if (!parse_int(h.extname.substr(5), d) || d < 0 || d >= (int64_t)t.ndim || have[(size_t)d]) continue;
			if (!read_doubles(h, t.knots[(size_t)d])) return false;
			have[(size_t)d] = true;
			if (d == 0 && first_ext_seen) t.ext_reversed = true;
			if (!first_ext_seen) first_ext_seen = i;
		}
	}
	for (uint32_t i = 0; i < t.ndim; i++) if (!have[i]) { err = "extension KNOTS" + std::to_string(i) + " missing"; return false; }
	return true;
}

} // namespace psv
