// Seeded generator of spline tables and of storage corruptions (DESIGN §3.6, §3.4).
//
// A generated table is described by a compact, explicit TableDesc: the *shape*
// (axis lengths, orders, styles, number of auxiliary keys, legacy flags) is
// spelled out, the *bulk* (knot values, coefficients, key/value texts) is
// derived from desc.seed by realize(). A plan that embeds a TableDesc is
// therefore a pure description of the table, small enough to read, and every
// shape field can be shrunk independently (dropping a dimension or halving an
// axis leaves the other dimensions' knots and the key texts unchanged).
//
// Corruptions are explicit JSON ops ({"c":"bitflip","off":123,"bit":4}, ...):
// a plan lists them, apply_corruption() executes one on an image. Positions are
// taken modulo the current image size / block count / HDU count, so an op stays
// applicable when other ops or the table are shrunk.
#pragma once
#include "fitscodec.h"
#include "prng.h"

namespace psv {

struct GenLimits {
	int min_dims = 1, max_dims = 9;
	uint64_t min_coeffs = 1, max_coeffs = 4000;   // bound on prod(naxes)
	int max_order = 5;
	int max_aux = 50;
	int min_aux = 0;
	bool special_values = true;   // denormal / huge / -0 / inf / NaN coefficient classes
	bool legacy = true;           // single ORDER, no EXTENTS, no PERIOD variants
	bool exotic_aux = true;       // HIERARCH keys, literal cards, comments
	int quote_permille = 30;      // share of tables (with keys) whose values contain quotes
	bool writer_styles = true;    // no TYPE / no COMMENT / reversed extension order
};

struct TableDesc {
	uint64_t seed = 0;
	std::vector<uint32_t> order;
	std::vector<uint64_t> naxes;
	std::string knots = "uniform";     // uniform | irregular | repeated
	std::string coeffs = "smooth";     // smooth | random | denormal | huge | negzero | inf | nan | mixed
	std::string extents = "default";   // none | default | explicit
	std::string periods = "none";      // none | zero | values
	int naux = 0;
	std::string aux = "plain";         // plain | mixed | quote
	bool single_order = false, no_type = false, no_comments = false, ext_reversed = false, double_image = false;
	int image_bitpix = 0;             // 0 | 8 | 16 | 32: integer coefficient image (see TableSpec)

	uint32_t ndim() const { return (uint32_t)naxes.size(); }
	uint64_t ncoeffs() const { uint64_t n = 1; for (auto a : naxes) n *= a; return naxes.empty() ? 0 : n; }
	Json to_json() const;
	static bool from_json(const Json &j, TableDesc &out, std::string &err);
};

TableDesc gen_table(Rng &rng, const GenLimits &lim);
TableSpec realize(const TableDesc &d);
// strictly simpler descriptions (fewer dims, shorter axes, lower orders, fewer
// keys, plainer styles); empty when nothing is left to simplify
std::vector<TableDesc> simplify_desc(const TableDesc &d);

// ---- storage corruption ----
// one seeded corruption op aimed at `base` (a valid image of `spec`)
Json gen_corruption(Rng &rng, const Bytes &base, const TableSpec &spec);
// applies one op; false = not applicable to this image (image unchanged); `note` says why / what
bool apply_corruption(Bytes &img, const Json &op, std::string &note);
// class of an op for statistics and signatures: "bytes" | "truncate" | "blocks" | "card" | "ext" | "knots" | "foreign"
std::string corruption_class(const Json &op);
// FITS files that are not spline tables (and non-FITS byte strings)
Bytes foreign_fits(const std::string &kind, uint64_t seed);
const std::vector<std::string> &foreign_kinds();

} // namespace psv
