// Shared harness skeleton: batch loop, event log/hash, statistics, replay and
// shrinking. A harness supplies generate() (runseed -> plan) and execute()
// (plan -> verdict); everything a run does is a function of the plan alone,
// and the plan is a function of the seed alone.
#pragma once
#include "prng.h"
#include "json.h"
#include <cstdarg>
#include <cstdio>
#include <map>
#include <set>
#include <string>
#include <vector>
#include <functional>

namespace psv {

struct EventLog {
	uint64_t h = 0xcbf29ce484222325ULL;
	uint64_t n = 0;
	bool keep = false;
	std::vector<std::string> lines;
	void ev(const char *fmt, ...) __attribute__((format(printf, 2, 3)));
	void evs(const std::string &s);
};

struct Stats {
	std::map<std::string, int64_t> counters;
	std::map<std::string, std::set<uint64_t>> distinct;
	void add(const std::string &k, int64_t v = 1) { counters[k] += v; }
	void max(const std::string &k, int64_t v) { auto &c = counters["max:" + k]; if (v > c) c = v; }
	void seen(const std::string &k, uint64_t h) { distinct[k].insert(h); }
};

struct RunCtx {
	std::string prop, tier;
	uint64_t runseed = 0;
	int64_t run = -1;
	EventLog log;
	Stats *stats = nullptr;
	bool violation = false;
	bool replaying = false;
	std::string sig, detail;
	// things a run observed that a later simplification step may want
	// (e.g. the schedule actually taken, as an explicit choice list)
	Json aux;
	// first violation wins: one run reports one signature, deterministically
	void violate(const std::string &sig_, const std::string &detail_) {
		std::string sg = sig_;
		for (char &c : sg) if (c == ' ' || c == '\n' || c == '\t') c = '_';   // signatures are single tokens
		log.ev("VIOLATION %s", sg.c_str());
		// one run reports one signature: the first of the property being checked, else the first of any
		bool own = sg.compare(0, prop.size() + 1, prop + "|") == 0;
		bool have_own = violation && sig.compare(0, prop.size() + 1, prop + "|") == 0;
		if (!violation || (own && !have_own)) { violation = true; sig = sg; detail = detail_; }
	}
	void crumb(const char *fmt, ...) __attribute__((format(printf, 2, 3)));
	void count(const std::string &k, int64_t v = 1) { if (stats) stats->add(k, v); }
	void seen(const std::string &k, uint64_t h) { if (stats) stats->seen(k, h); }
};

struct Harness {
	virtual ~Harness() {}
	virtual const char *name() const = 0;
	virtual bool serves(const std::string &prop) const = 0;
	// runs per tier (before division among workers) are decided by the driver;
	// generate() must only depend on (prop, runseed, tier)
	virtual Json generate(const std::string &prop, uint64_t runseed, const std::string &tier) = 0;
	virtual void execute(const Json &plan, RunCtx &ctx) = 0;
	// candidates strictly simpler than `plan` (harness-specific); ddmin over
	// plan["ops"] is applied generically before these
	virtual std::vector<Json> simplify(const Json &plan, const Json &aux) { (void)plan; (void)aux; return {}; }
	// called once per process before the first run
	virtual void init() {}
	// wall-clock watchdog of one run (seconds): the one place real time is read. It can only turn a genuine
	// hang of code without yield points into a report; generous compared with what a run of the harness takes
	virtual unsigned watchdog_s(const std::string &prop, const std::string &tier) const { (void)prop; (void)tier; return 600; }
};

int harness_main(int argc, char **argv, Harness &h);

// helpers shared by harnesses
std::string hex64(uint64_t v);
uint64_t hash_json(const Json &j);

} // namespace psv
