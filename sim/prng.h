// Seeded PRNG streams for the simulator. One integer (VERIF_SEED, run index)
// decides everything: each labelled stream is an independent xoshiro256**
// generator derived from runseed by splitmix64. Nothing here reads a clock,
// an address or any other ambient state.
#pragma once
#include <cstdint>
#include <cstring>
#include <cmath>
#include <string>
#include <vector>

namespace psv {

inline uint64_t splitmix64(uint64_t &x) {
	uint64_t z = (x += 0x9e3779b97f4a7c15ULL);
	z = (z ^ (z >> 30)) * 0xbf58476d1ce4e5b9ULL;
	z = (z ^ (z >> 27)) * 0x94d049bb133111ebULL;
	return z ^ (z >> 31);
}

inline uint64_t fnv1a(const void *data, size_t n, uint64_t h = 0xcbf29ce484222325ULL) {
	const unsigned char *p = static_cast<const unsigned char *>(data);
	for (size_t i = 0; i < n; i++) { h ^= p[i]; h *= 0x100000001b3ULL; }
	return h;
}
inline uint64_t fnv1a(const std::string &s, uint64_t h = 0xcbf29ce484222325ULL) {
	return fnv1a(s.data(), s.size(), h);
}

// runseed = mix(VERIF_SEED, run index)
inline uint64_t mix_seed(uint64_t seed, uint64_t run) {
	uint64_t s = seed * 0x9e3779b97f4a7c15ULL + 0x1234567ULL;
	uint64_t a = splitmix64(s);
	s ^= run * 0xd1342543de82ef95ULL + 0x632be59bd9b4e019ULL;
	uint64_t b = splitmix64(s);
	return a ^ (b << 1) ^ (b >> 63);
}

class Rng {
	uint64_t s[4];
	static uint64_t rotl(uint64_t x, int k) { return (x << k) | (x >> (64 - k)); }
public:
	Rng() : Rng(0, "") {}
	Rng(uint64_t runseed, const char *label) {
		uint64_t x = runseed ^ fnv1a(label, strlen(label));
		for (int i = 0; i < 4; i++) s[i] = splitmix64(x);
	}
	uint64_t next() {
		uint64_t r = rotl(s[1] * 5, 7) * 9, t = s[1] << 17;
		s[2] ^= s[0]; s[3] ^= s[1]; s[1] ^= s[2]; s[0] ^= s[3];
		s[2] ^= t; s[3] = rotl(s[3], 45);
		return r;
	}
	// uniform in [0,n); n>0
	uint64_t below(uint64_t n) { return n ? next() % n : 0; }
	// uniform integer in [a,b]
	int64_t range(int64_t a, int64_t b) { return a + (int64_t)below((uint64_t)(b - a + 1)); }
	double unit() { return (double)(next() >> 11) * (1.0 / 9007199254740992.0); }
	double uniform(double a, double b) { return a + (b - a) * unit(); }
	bool chance(double p) { return unit() < p; }
	double normal() {
		double u1 = unit(), u2 = unit();
		if (u1 < 1e-300) u1 = 1e-300;
		return std::sqrt(-2.0 * std::log(u1)) * std::cos(6.283185307179586 * u2);
	}
	template <class T> const T &pick(const std::vector<T> &v) { return v[below(v.size())]; }
	template <class T, size_t N> const T &pick(const T (&v)[N]) { return v[below(N)]; }
};

} // namespace psv
