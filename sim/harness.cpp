#include "harness.h"
#include <csignal>
#include <cstring>
#include <unistd.h>
#include <fcntl.h>
#include <sys/mman.h>
#include <sys/wait.h>
#include <algorithm>

// Sanitizer defaults: distinguishable exit code, no leak flood at exit (leaks
// are checked per run by the harnesses that care), unlimited error reports off.
extern "C" __attribute__((used, visibility("default"))) const char *__asan_default_options() {
	return "exitcode=77:detect_leaks=0:abort_on_error=0:allocator_may_return_null=1:"
	       "detect_stack_use_after_return=0:handle_segv=1:handle_abort=0:max_allocation_size_mb=2048:"
	       "new_delete_type_mismatch=1:alloc_dealloc_mismatch=1";
}
extern "C" __attribute__((used, visibility("default"))) const char *__ubsan_default_options() {
	return "halt_on_error=1:exitcode=77:print_stacktrace=1";
}

namespace psv {

void EventLog::evs(const std::string &s) {
	h = fnv1a(s.data(), s.size(), h);
	h = fnv1a("\n", 1, h);
	n++;
	if (keep) lines.push_back(s);
}
void EventLog::ev(const char *fmt, ...) {
	char buf[1024];
	va_list ap; va_start(ap, fmt);
	int k = vsnprintf(buf, sizeof buf, fmt, ap);
	va_end(ap);
	if (k < 0) k = 0;
	if ((size_t)k >= sizeof buf) k = sizeof buf - 1;
	evs(std::string(buf, (size_t)k));
}

FILE *g_out = stdout;
static char *g_crumb = nullptr;          // mmap'ed breadcrumb (shared with the driver)
static const size_t CRUMB_SZ = 512;
void RunCtx::crumb(const char *fmt, ...) {
	if (!g_crumb) return;
	char buf[CRUMB_SZ];
	int k = snprintf(buf, sizeof buf, "%lld|", (long long)run);
	va_list ap; va_start(ap, fmt);
	vsnprintf(buf + k, sizeof buf - (size_t)k, fmt, ap);
	va_end(ap);
	memcpy(g_crumb, buf, CRUMB_SZ);
}

std::string hex64(uint64_t v) { char b[20]; snprintf(b, sizeof b, "%016llx", (unsigned long long)v); return b; }
uint64_t hash_json(const Json &j) { return fnv1a(j.dump()); }

namespace {

struct Args {
	std::string cmd, prop, tier = "quick", in, out, distinct_out, crumb;
	uint64_t seed = 1;
	int64_t from = 0, to = 1, run = 0;
	bool trace = false;
	int max_samples = 3;
};

Args parse_args(int argc, char **argv) {
	Args a;
	if (argc > 1) a.cmd = argv[1];
	for (int i = 2; i < argc; i++) {
		std::string k = argv[i];
		auto val = [&]() -> std::string { if (i + 1 >= argc) { fprintf(stderr, "missing value for %s\n", k.c_str()); exit(3); } return argv[++i]; };
		if (k == "--prop") a.prop = val();
		else if (k == "--tier") a.tier = val();
		else if (k == "--seed") a.seed = strtoull(val().c_str(), nullptr, 10);
		else if (k == "--from") a.from = atoll(val().c_str());
		else if (k == "--to") a.to = atoll(val().c_str());
		else if (k == "--run") a.run = atoll(val().c_str());
		else if (k == "--in") a.in = val();
		else if (k == "--out") a.out = val();
		else if (k == "--distinct-out") a.distinct_out = val();
		else if (k == "--crumb") a.crumb = val();
		else if (k == "--trace") a.trace = true;
		else if (k == "--samples") a.max_samples = atoi(val().c_str());
		else if (a.in.empty() && k[0] != '-') a.in = k;
		else { fprintf(stderr, "unknown argument %s\n", k.c_str()); exit(3); }
	}
	return a;
}

void open_crumb(const std::string &path) {
	if (path.empty()) return;
	int fd = open(path.c_str(), O_RDWR | O_CREAT, 0644);
	if (fd < 0) return;
	if (ftruncate(fd, CRUMB_SZ) != 0) { close(fd); return; }
	void *p = mmap(nullptr, CRUMB_SZ, PROT_READ | PROT_WRITE, MAP_SHARED, fd, 0);
	close(fd);
	if (p != MAP_FAILED) { g_crumb = (char *)p; memset(g_crumb, 0, CRUMB_SZ); }
}

Json stats_json(const Stats &st) {
	Json j = Json::object();
	Json c = Json::object();
	for (auto &kv : st.counters) c[kv.first] = Json((long long)kv.second);
	j["counters"] = c;
	Json d = Json::object();
	for (auto &kv : st.distinct) d[kv.first] = Json((long long)kv.second.size());
	j["distinct_local"] = d;
	return j;
}

struct ProbeResult { bool ok = false; bool violation = false; std::string sig; uint64_t hash = 0; Json aux; std::string how; };

// Execute a plan in a forked child so that a sanitizer abort, a signal or a
// hang of the system under test is an observation, not the end of the shrinker.
ProbeResult probe(Harness &h, const std::string &prop, const std::string &tier, const Json &plan, bool trace = false) {
	ProbeResult pr;
	int fds[2];
	if (pipe(fds) != 0) return pr;
	fflush(g_out); fflush(stderr);
	pid_t pid = fork();
	if (pid == 0) {
		close(fds[0]);
		alarm(h.watchdog_s(prop, tier));
		RunCtx ctx; ctx.prop = prop; ctx.tier = tier; ctx.replaying = true; ctx.log.keep = trace;
		Stats st; ctx.stats = &st;
		h.execute(plan, ctx);
		Json r = Json::object();
		r["violation"] = Json(ctx.violation);
		r["sig"] = Json(ctx.sig);
		r["detail"] = Json(ctx.detail);
		r["hash"] = Json(hex64(ctx.log.h));
		r["aux"] = ctx.aux;
		if (trace) { Json t = Json::array(); for (auto &l : ctx.log.lines) t.push(Json(l)); r["trace"] = t; }
		std::string s = r.dump();
		size_t off = 0;
		while (off < s.size()) { ssize_t w = write(fds[1], s.data() + off, s.size() - off); if (w <= 0) break; off += (size_t)w; }
		close(fds[1]);
		_exit(0);
	}
	close(fds[1]);
	std::string buf; char tmp[65536]; ssize_t k;
	while ((k = read(fds[0], tmp, sizeof tmp)) > 0) buf.append(tmp, (size_t)k);
	close(fds[0]);
	int status = 0;
	waitpid(pid, &status, 0);
	pr.ok = true;
	if (WIFEXITED(status) && WEXITSTATUS(status) == 0 && !buf.empty()) {
		try {
			Json r = Json::parse(buf);
			pr.violation = r.getb("violation");
			pr.sig = r.gets("sig");
			pr.hash = strtoull(r.gets("hash").c_str(), nullptr, 16);
			pr.aux = r["aux"];
			if (trace && r.has("trace")) pr.aux["trace"] = r["trace"];
			pr.how = r.gets("detail");
		} catch (...) { pr.ok = false; }
	} else {
		pr.violation = true;
		char b[64];
		if (WIFSIGNALED(status)) snprintf(b, sizeof b, "crash:sig%d", WTERMSIG(status));
		else if (WEXITSTATUS(status) == 77) snprintf(b, sizeof b, "crash:sanitizer");
		else snprintf(b, sizeof b, "crash:exit%d", WEXITSTATUS(status));
		pr.sig = b;
		pr.how = b;
	}
	return pr;
}

// crash signatures carry the breadcrumb in run mode but not here; compare on the class
bool same_class(const std::string &want, const ProbeResult &pr) {
	if (!pr.violation) return false;
	if (pr.sig == want) return true;
	// want looks like "<prop>|crash:xxx|<crumb>" when it came from the driver
	if (pr.sig.compare(0, 6, "crash:") == 0 && want.find(pr.sig) != std::string::npos) return true;
	return false;
}

int cmd_shrink(Harness &h, const Args &a) {
	Json file = Json::load(a.in);
	Json plan = file["plan"];
	std::string want = file["expect"].gets("sig");
	std::string prop = file.gets("property", a.prop);
	std::string tier = file.gets("tier", a.tier);
	int probes = 0;
	ProbeResult cur = probe(h, prop, tier, plan); probes++;
	if (!cur.violation) { fprintf(stderr, "shrink: plan does not violate\n"); return 4; }
	if (want.empty()) want = cur.sig;
	if (!same_class(want, cur)) { fprintf(stderr, "shrink: plan violates with %s, expected %s\n", cur.sig.c_str(), want.c_str()); return 4; }
	auto test = [&](const Json &cand, ProbeResult &out) -> bool {
		if (probes > 600) return false;
		out = probe(h, prop, tier, cand); probes++;
		return out.ok && same_class(want, out);
	};
	bool progress = true;
	int rounds = 0;
	while (progress && rounds++ < 40) {
		progress = false;
		// ddmin over ops
		if (plan.has("ops") && plan["ops"].is_arr()) {
			size_t n = plan["ops"].size();
			size_t chunk = n / 2;
			while (chunk >= 1 && plan["ops"].size() > 1) {
				bool removed = false;
				for (size_t start = 0; start + chunk <= plan["ops"].size();) {
					Json cand = plan;
					auto &ops = cand["ops"].a;
					ops.erase(ops.begin() + (long)start, ops.begin() + (long)(start + chunk));
					ProbeResult pr;
					if (!ops.empty() && test(cand, pr)) { plan = cand; cur = pr; removed = true; progress = true; }
					else start += chunk;
				}
				if (!removed) chunk /= 2;
				else if (chunk > plan["ops"].size() / 2) chunk = plan["ops"].size() / 2;
				if (chunk == 0) break;
			}
		}
		// harness-specific simplifications: accept the first that still fails the same way
		bool again = true;
		int guard = 0;
		while (again && guard++ < 200) {
			again = false;
			std::vector<Json> cands = h.simplify(plan, cur.aux);
			for (auto &cand : cands) {
				ProbeResult pr;
				if (test(cand, pr)) { plan = cand; cur = pr; again = true; progress = true; break; }
			}
		}
	}
	// final probe with trace, in a fresh child
	ProbeResult fin = probe(h, prop, tier, plan, true);
	Json out = Json::object();
	out["property"] = Json(prop);
	out["tier"] = Json(tier);
	out["harness"] = Json(h.name());
	out["plan"] = plan;
	Json ex = Json::object();
	ex["sig"] = Json(fin.violation ? fin.sig : cur.sig);
	ex["hash"] = Json(hex64(fin.hash));
	ex["detail"] = Json(fin.how);
	out["expect"] = ex;
	if (file.has("origin")) out["origin"] = file["origin"];
	out["shrink_probes"] = Json(probes);
	if (fin.aux.has("trace")) out["trace"] = fin.aux["trace"];
	out.save(a.out);
	fprintf(g_out, "SHRUNK probes=%d sig=%s hash=%s\n", probes, ex.gets("sig").c_str(), ex.gets("hash").c_str());
	return 0;
}

int cmd_replay(Harness &h, const Args &a) {
	Json file = Json::load(a.in);
	Json plan = file.has("plan") ? file["plan"] : file;
	std::string prop = file.gets("property", a.prop);
	std::string tier = file.gets("tier", a.tier);
	ProbeResult pr = probe(h, prop, tier, plan, a.trace);
	if (a.trace && pr.aux.has("trace"))
		for (auto &l : pr.aux["trace"].a) fprintf(g_out, "  %s\n", l.s.c_str());
	fprintf(g_out, "REPLAY property=%s verdict=%s sig=%s hash=%s\n", prop.c_str(), pr.violation ? "VIOL" : "ok",
	       pr.sig.c_str(), hex64(pr.hash).c_str());
	if (pr.violation && !pr.how.empty()) fprintf(g_out, "DETAIL %s\n", pr.how.c_str());
	if (file.has("expect")) {
		std::string want = file["expect"].gets("sig");
		std::string wh = file["expect"].gets("hash");
		bool same = same_class(want, pr) && (pr.sig.compare(0, 6, "crash:") == 0 || wh.empty() || wh == hex64(pr.hash));
		fprintf(g_out, "EXPECTED sig=%s hash=%s reproduced=%s\n", want.c_str(), wh.c_str(), same ? "yes" : "no");
	}
	return pr.violation ? 1 : 0;
}

int cmd_run(Harness &h, const Args &a) {
	open_crumb(a.crumb);
	Stats st;
	std::vector<std::string> samples;
	for (int64_t r = a.from; r < a.to; r++) {
		uint64_t runseed = mix_seed(a.seed, (uint64_t)r);
		fprintf(g_out, "START %lld\n", (long long)r); fflush(g_out);
		alarm(h.watchdog_s(a.prop, a.tier));   // generous: only a genuine hang of code without yield points should ever reach it
		Json plan = h.generate(a.prop, runseed, a.tier);
		RunCtx ctx; ctx.prop = a.prop; ctx.tier = a.tier; ctx.runseed = runseed; ctx.run = r; ctx.stats = &st;
		ctx.crumb("generate");
		h.execute(plan, ctx);
		alarm(0);
		st.add("runs");
		st.add("events", (int64_t)ctx.log.n);
		if (ctx.violation)
			fprintf(g_out, "DONE %lld hash=%s verdict=VIOL sig=%s\n", (long long)r, hex64(ctx.log.h).c_str(), ctx.sig.c_str());
		else
			fprintf(g_out, "DONE %lld hash=%s verdict=ok\n", (long long)r, hex64(ctx.log.h).c_str());
		fflush(g_out);
		if ((int)samples.size() < a.max_samples) {
			std::string s = plan.dump();
			if (s.size() <= 6000) samples.push_back(s);
		}
	}
	for (auto &s : samples) fprintf(g_out, "SAMPLE %s\n", s.c_str());
	fprintf(g_out, "STATS %s\n", stats_json(st).dump().c_str());
	if (!a.distinct_out.empty()) {
		FILE *f = fopen(a.distinct_out.c_str(), "w");
		if (f) {
			for (auto &kv : st.distinct) {
				fprintf(f, "%s", kv.first.c_str());
				for (uint64_t v : kv.second) fprintf(f, " %llx", (unsigned long long)v);
				fprintf(f, "\n");
			}
			fclose(f);
		}
	}
	fprintf(g_out, "END\n");
	fflush(g_out);
	return 0;
}

int cmd_plan(Harness &h, const Args &a) {
	uint64_t runseed = mix_seed(a.seed, (uint64_t)a.run);
	Json plan = h.generate(a.prop, runseed, a.tier);
	Json out = Json::object();
	out["property"] = Json(a.prop);
	out["tier"] = Json(a.tier);
	out["harness"] = Json(h.name());
	Json org = Json::object();
	org["seed"] = Json((long long)a.seed); org["run"] = Json((long long)a.run);
	out["origin"] = org;
	out["plan"] = plan;
	if (!a.out.empty()) out.save(a.out); else fprintf(g_out, "%s\n", out.dump().c_str());
	return 0;
}

} // namespace

int harness_main(int argc, char **argv, Harness &h) {
	// protocol lines go to a private copy of stdout; whatever the system under
	// test prints to fd 1 is discarded so it cannot be mistaken for protocol
	{
		int pfd = dup(1);
		int nul = open("/dev/null", O_WRONLY);
		if (pfd >= 0 && nul >= 0 && !getenv("PSV_KEEP_STDOUT")) { g_out = fdopen(pfd, "w"); dup2(nul, 1); close(nul); }
		setvbuf(g_out, nullptr, _IOLBF, 0);
	}
	Args a = parse_args(argc, argv);
	if (a.cmd.empty()) {
		fprintf(stderr, "usage: %s run|plan|replay|shrink --prop ID ...\n", argv[0]);
		return 3;
	}
	h.init();
	if (a.cmd == "run") return cmd_run(h, a);
	if (a.cmd == "plan") return cmd_plan(h, a);
	if (a.cmd == "replay") return cmd_replay(h, a);
	if (a.cmd == "shrink") return cmd_shrink(h, a);
	fprintf(stderr, "unknown command %s\n", a.cmd.c_str());
	return 3;
}

} // namespace psv
