// SimAlloc — the simulator's allocator seam (DESIGN §3.5, S6).
//
//   photospline::splinetable<psv::SimAlloc<void>> t{psv::SimAlloc<void>(owner)};
//
// Every array such a table owns goes through a per-run psv::Ledger.
//
// API (header-only, independent of the simulated disk):
//
//   Ledger L; Ledger::Scope use(L);      install L as the current ledger (RAII;
//                                        Ledger::current() is never null: a
//                                        process-wide fallback ledger exists)
//   int id = L.new_owner();              owner ids 1,2,3...; SimAlloc<T>(id) tags
//                                        every block with it (kept across rebind,
//                                        copy and move); SimAlloc<T>() == owner 0
//   L.arm();                             start a new "op": the position counter
//                                        used by fail_at() restarts at 0
//   L.fail_at(k);                        the k-th (1-based) allocation since arm()
//                                        throws std::bad_alloc (recorded as
//                                        injected_failures); 0 disarms
//   L.set_capacity(bytes);               arena: a request that would push live
//                                        bytes above it throws std::bad_alloc and
//                                        is recorded as capacity_refused; 0 = none
//   requests > Ledger::HARD_CAP (1 GiB)  throw std::bad_alloc (hard_cap_refused):
//                                        a legitimate allocation failure
//   L.live_bytes(), L.peak_bytes(), L.live_blocks(), L.live_blocks_of(owner),
//   L.live_bytes_of(owner), L.allocs_since_arm(), L.counters() (events by kind)
//   L.violations()                       ledger violations observed so far
//                                        (unknown pointer / size mismatch /
//                                        double free / foreign owner: released
//                                        through a handle of another arena); such a
//                                        block is NOT forwarded to free, it is
//                                        quarantined until reset()
//   L.abandon(owner)                     drop (and release) every live block of an
//                                        object that is in a known-bad state and
//                                        will not be destroyed; returns #blocks
//   L.reset()                            free quarantined and still-live blocks,
//                                        clear everything (call between runs)
//   L.on_event = [](const Ledger::Event&){}   optional observer (ordinal, kind,
//                                        bytes, owner, position-in-op); never
//                                        contains an address
//
// Raw addresses are used only as in-run lookup keys. Nothing that is exposed
// for logging or hashing (events, violations, counters) contains one.
#pragma once
#include <cstddef>
#include <cstdint>
#include <cstdlib>
#include <cstring>
#include <algorithm>
#include <functional>
#include <map>
#include <new>
#include <string>
#include <vector>

namespace psv {

class Ledger {
public:
	static constexpr size_t HARD_CAP = size_t(1) << 30;

	enum EventKind { Alloc, Free, InjectedFailure, CapacityRefused, HardCapRefused, Violation, NullFree };
	struct Event {
		EventKind kind;
		uint64_t ordinal;   // allocation ordinal of the block concerned (0 if none)
		size_t bytes;
		int owner;
		uint64_t pos;       // position of an allocation inside the current op (1-based)
	};
	struct ViolationRec {
		std::string kind;   // "unknown-pointer" | "size-mismatch" | "double-free" | "foreign-owner"
		uint64_t ordinal;   // block concerned, 0 if unknown
		size_t have, want;  // recorded size, size named by the caller
		int owner;
	};
	struct Counters {
		uint64_t allocs = 0, frees = 0, injected_failures = 0, capacity_refused = 0,
		         hard_cap_refused = 0, null_frees = 0, violations = 0, abandoned_blocks = 0;
	};

	std::function<void(const Event &)> on_event;
	// Every handle is its own arena: a block must be released through a handle that
	// compares equal to the one it was obtained from (same owner tag). A table that takes over
	// another table's storage has to take over its allocator with it.
	bool check_owner = true;

	Ledger() {}
	~Ledger() { reset(); }
	Ledger(const Ledger &) = delete;
	Ledger &operator=(const Ledger &) = delete;

	static Ledger *&current_slot() { static Ledger *cur = nullptr; return cur; }
	static Ledger &fallback() { static Ledger *f = new Ledger(); return *f; }
	static Ledger &current() { Ledger *c = current_slot(); return c ? *c : fallback(); }
	struct Scope {
		Ledger *prev;
		explicit Scope(Ledger &l) : prev(current_slot()) { current_slot() = &l; }
		~Scope() { current_slot() = prev; }
	};

	int new_owner() { return ++next_owner_; }
	void arm() { pos_ = 0; }
	void fail_at(uint64_t k) { fail_at_ = k; }
	void set_capacity(size_t bytes) { capacity_ = bytes; }

	size_t live_bytes() const { return live_bytes_; }
	size_t peak_bytes() const { return peak_bytes_; }
	void reset_peak() { peak_bytes_ = live_bytes_; }
	size_t live_blocks() const { return live_.size(); }
	uint64_t allocs_since_arm() const { return pos_; }
	const Counters &counters() const { return cnt_; }
	const std::vector<ViolationRec> &violations() const { return viol_; }

	size_t live_blocks_of(int owner) const {
		size_t n = 0;
		for (auto &kv : live_) if (kv.second.owner == owner) n++;
		return n;
	}
	size_t live_bytes_of(int owner) const {
		size_t n = 0;
		for (auto &kv : live_) if (kv.second.owner == owner) n += kv.second.bytes;
		return n;
	}

	void *allocate(size_t bytes, int owner) {
		pos_++;
		if (bytes > HARD_CAP) {
			cnt_.hard_cap_refused++;
			emit(HardCapRefused, 0, bytes, owner);
			throw std::bad_alloc();
		}
		if (fail_at_ && pos_ == fail_at_) {
			cnt_.injected_failures++;
			emit(InjectedFailure, 0, bytes, owner);
			throw std::bad_alloc();
		}
		if (capacity_ && live_bytes_ + bytes > capacity_) {
			cnt_.capacity_refused++;
			emit(CapacityRefused, 0, bytes, owner);
			throw std::bad_alloc();
		}
		void *p = std::malloc(bytes ? bytes : 1);
		if (!p) throw std::bad_alloc();
		// deterministic content: code that reads storage it never wrote (the
		// padding slots around knot vectors) then behaves the same in every run
		std::memset(p, 0xA5, bytes ? bytes : 1);
		Block b; b.ordinal = ++next_ordinal_; b.bytes = bytes; b.owner = owner;
		live_[p] = b;
		freed_.erase(p);   // the address is in use again: an old free of it is history
		live_bytes_ += bytes;
		if (live_bytes_ > peak_bytes_) peak_bytes_ = live_bytes_;
		cnt_.allocs++;
		emit(Alloc, b.ordinal, bytes, owner);
		return p;
	}

	void deallocate(void *p, size_t bytes, int owner) noexcept {
		if (!p) {   // splinetable releases null arrays of length 0 (aux of a table without keys)
			cnt_.null_frees++;
			emit(NullFree, 0, bytes, owner);
			return;
		}
		auto it = live_.find(p);
		if (it == live_.end()) {
			auto f = freed_.find(p);
			if (f != freed_.end()) violate("double-free", f->second.ordinal, f->second.bytes, bytes, owner);
			else violate("unknown-pointer", 0, 0, bytes, owner);
			return;   // not forwarded to free
		}
		Block b = it->second;
		if (b.bytes != bytes) {
			violate("size-mismatch", b.ordinal, b.bytes, bytes, owner);
			// quarantine: the block stays allocated but leaves the live set
			live_bytes_ -= b.bytes;
			live_.erase(it);
			quarantine_.push_back(p);
			return;
		}
		if (check_owner && b.owner != owner) violate("foreign-owner", b.ordinal, b.bytes, bytes, owner);
		live_bytes_ -= b.bytes;
		live_.erase(it);
		freed_[p] = b;
		cnt_.frees++;
		emit(Free, b.ordinal, bytes, b.owner);
		// the memory itself is kept until reset() so that a second free of the
		// same address is recognised as such instead of aliasing a newer block
		quarantine_.push_back(p);
		if (quarantine_.size() > QUARANTINE_MAX) drain_quarantine(QUARANTINE_MAX / 2);
	}

	// Drop every live block of `owner` (an object that will not be destroyed).
	size_t abandon(int owner) {
		size_t n = 0;
		for (auto it = live_.begin(); it != live_.end();) {
			if (it->second.owner == owner) {
				live_bytes_ -= it->second.bytes;
				quarantine_.push_back(it->first);
				it = live_.erase(it);
				n++;
			} else ++it;
		}
		cnt_.abandoned_blocks += n;
		return n;
	}

	void reset() {
		for (auto &kv : live_) std::free(kv.first);
		live_.clear();
		for (void *p : quarantine_) std::free(p);
		quarantine_.clear();
		freed_.clear();
		viol_.clear();
		cnt_ = Counters();
		live_bytes_ = peak_bytes_ = 0;
		next_ordinal_ = 0; next_owner_ = 0; pos_ = 0; fail_at_ = 0; capacity_ = 0;
	}

private:
	struct Block { uint64_t ordinal = 0; size_t bytes = 0; int owner = 0; };
	static constexpr size_t QUARANTINE_MAX = 1 << 16;

	std::map<void *, Block> live_;     // address -> block; never iterated for output
	std::map<void *, Block> freed_;    // addresses released and still quarantined
	std::vector<void *> quarantine_;
	std::vector<ViolationRec> viol_;
	Counters cnt_;
	size_t live_bytes_ = 0, peak_bytes_ = 0, capacity_ = 0;
	uint64_t next_ordinal_ = 0, pos_ = 0, fail_at_ = 0;
	int next_owner_ = 0;

	void emit(EventKind k, uint64_t ord, size_t bytes, int owner) {
		if (on_event) { Event e{k, ord, bytes, owner, pos_}; on_event(e); }
	}
	void violate(const char *kind, uint64_t ord, size_t have, size_t want, int owner) {
		cnt_.violations++;
		viol_.push_back(ViolationRec{kind, ord, have, want, owner});
		emit(Violation, ord, want, owner);
	}
	void drain_quarantine(size_t n) {
		// oldest first; only addresses that are really free (not violations kept live)
		for (size_t i = 0; i < n && i < quarantine_.size(); i++) {
			freed_.erase(quarantine_[i]);
			std::free(quarantine_[i]);
		}
		quarantine_.erase(quarantine_.begin(), quarantine_.begin() + (long)std::min(n, quarantine_.size()));
	}
};

template <class T> class SimAlloc;

template <> class SimAlloc<void> {
public:
	typedef void value_type;
	typedef void *pointer;
	typedef const void *const_pointer;
	template <class U> struct rebind { typedef SimAlloc<U> other; };
	int owner;
	SimAlloc() noexcept : owner(0) {}
	explicit SimAlloc(int owner_) noexcept : owner(owner_) {}
	template <class U> SimAlloc(const SimAlloc<U> &o) noexcept : owner(o.owner) {}
};

template <class T> class SimAlloc {
public:
	typedef T value_type;
	typedef T *pointer;
	typedef const T *const_pointer;
	typedef T &reference;
	typedef const T &const_reference;
	typedef std::size_t size_type;
	typedef std::ptrdiff_t difference_type;
	template <class U> struct rebind { typedef SimAlloc<U> other; };
	int owner;
	SimAlloc() noexcept : owner(0) {}
	explicit SimAlloc(int owner_) noexcept : owner(owner_) {}
	template <class U> SimAlloc(const SimAlloc<U> &o) noexcept : owner(o.owner) {}

	T *allocate(std::size_t n) {
		if (n > Ledger::HARD_CAP / sizeof(T)) return static_cast<T *>(Ledger::current().allocate(Ledger::HARD_CAP + 1, owner));
		return static_cast<T *>(Ledger::current().allocate(n * sizeof(T), owner));
	}
	void deallocate(T *p, std::size_t n) noexcept {
		Ledger::current().deallocate(static_cast<void *>(p), n * sizeof(T), owner);
	}
};

// Handles with different owner tags are different arenas (stateful, unequal allocators): storage obtained
// from one may only be returned through an equal one. The ledger reports a release through an unequal
// handle as "foreign-owner".
template <class A, class B> inline bool operator==(const SimAlloc<A> &a, const SimAlloc<B> &b) noexcept { return a.owner == b.owner; }
template <class A, class B> inline bool operator!=(const SimAlloc<A> &a, const SimAlloc<B> &b) noexcept { return a.owner != b.owner; }

} // namespace psv
