// Reference implementations of the six real BLAS/LAPACK routines CHOLMOD's supernodal code calls
// (dgemm, dsyrk, dtrsm, dgemv, dtrsv, dpotrf), Fortran ABI, 32-bit integers, column-major.
//
// Why the simulator owns them: the optimised BLAS on this machine (OpenBLAS) chooses its kernels by buffer
// alignment, i.e. by heap history, so the floating-point result of a supernodal factorisation was not a
// function of the plan. Earlier rounds therefore forced CHOLMOD's simplicial code - which hid the whole
// supernodal path of the repository's factor handling (recompute_factor's column growth among it). With
// these plain loops (fixed summation order, no alignment-dependent paths) a supernodal factorisation is as
// reproducible as a simplicial one. The executable exports them (-rdynamic), so libcholmod.so's calls bind
// here; SuiteSparseQR's Householder routines (dlarf*, dnrm2) stay with the system library.
//
// psv_refblas_calls counts the calls (reach probe: "a supernodal factorisation really ran").
#include <cmath>
#include <cstdint>

extern "C" {

uint64_t psv_refblas_calls = 0;

static inline bool is(const char *p, char a) { char c = *p; if (c >= 'a' && c <= 'z') c = (char)(c - 32); return c == a; }

// C := alpha*op(A)*op(B) + beta*C
void dgemm_(const char *transa, const char *transb, const int *m_, const int *n_, const int *k_, const double *alpha_, const double *A,
            const int *lda_, const double *B, const int *ldb_, const double *beta_, double *C, const int *ldc_) {
	psv_refblas_calls++;
	const long m = *m_, n = *n_, k = *k_, lda = *lda_, ldb = *ldb_, ldc = *ldc_;
	const double alpha = *alpha_, beta = *beta_;
	const bool ta = !is(transa, 'N'), tb = !is(transb, 'N');
	for (long j = 0; j < n; j++)
		for (long i = 0; i < m; i++) {
			double s = 0;
			for (long l = 0; l < k; l++) {
				double a = ta ? A[l + i * lda] : A[i + l * lda];
				double b = tb ? B[j + l * ldb] : B[l + j * ldb];
				s += a * b;
			}
			double &c = C[i + j * ldc];
			c = (beta == 0 ? 0 : beta * c) + alpha * s;
		}
}

// C := alpha*A*A' + beta*C (trans = N) or alpha*A'*A + beta*C (trans = T/C); only the uplo triangle is touched
void dsyrk_(const char *uplo, const char *trans, const int *n_, const int *k_, const double *alpha_, const double *A, const int *lda_,
            const double *beta_, double *C, const int *ldc_) {
	psv_refblas_calls++;
	const long n = *n_, k = *k_, lda = *lda_, ldc = *ldc_;
	const double alpha = *alpha_, beta = *beta_;
	const bool lower = is(uplo, 'L'), tr = !is(trans, 'N');
	for (long j = 0; j < n; j++) {
		long i0 = lower ? j : 0, i1 = lower ? n : j + 1;
		for (long i = i0; i < i1; i++) {
			double s = 0;
			for (long l = 0; l < k; l++) s += tr ? A[l + i * lda] * A[l + j * lda] : A[i + l * lda] * A[j + l * lda];
			double &c = C[i + j * ldc];
			c = (beta == 0 ? 0 : beta * c) + alpha * s;
		}
	}
}

// y := alpha*op(A)*x + beta*y
void dgemv_(const char *trans, const int *m_, const int *n_, const double *alpha_, const double *A, const int *lda_, const double *x,
            const int *incx_, const double *beta_, double *y, const int *incy_) {
	psv_refblas_calls++;
	const long m = *m_, n = *n_, lda = *lda_, incx = *incx_, incy = *incy_;
	const double alpha = *alpha_, beta = *beta_;
	const bool tr = !is(trans, 'N');
	const long leny = tr ? n : m, lenx = tr ? m : n;
	const double *x0 = incx < 0 ? x - (lenx - 1) * incx : x;
	double *y0 = incy < 0 ? y - (leny - 1) * incy : y;
	for (long i = 0; i < leny; i++) {
		double s = 0;
		for (long l = 0; l < lenx; l++) s += (tr ? A[l + i * lda] : A[i + l * lda]) * x0[l * incx];
		double &yy = y0[i * incy];
		yy = (beta == 0 ? 0 : beta * yy) + alpha * s;
	}
}

// solves op(A)*x = b in place, A triangular n x n
void dtrsv_(const char *uplo, const char *trans, const char *diag, const int *n_, const double *A, const int *lda_, double *x, const int *incx_) {
	psv_refblas_calls++;
	const long n = *n_, lda = *lda_, incx = *incx_;
	const bool lower = is(uplo, 'L'), tr = !is(trans, 'N'), unit = is(diag, 'U');
	double *x0 = incx < 0 ? x - (n - 1) * incx : x;
	auto X = [&](long i) -> double & { return x0[i * incx]; };
	// op(A) is lower triangular when (lower and not transposed) or (upper and transposed)
	const bool eff_lower = lower != tr;
	auto a = [&](long i, long j) { return tr ? A[j + i * lda] : A[i + j * lda]; };   // element (i,j) of op(A)
	if (eff_lower) {
		for (long i = 0; i < n; i++) {
			double s = X(i);
			for (long j = 0; j < i; j++) s -= a(i, j) * X(j);
			X(i) = unit ? s : s / a(i, i);
		}
	} else {
		for (long i = n - 1; i >= 0; i--) {
			double s = X(i);
			for (long j = i + 1; j < n; j++) s -= a(i, j) * X(j);
			X(i) = unit ? s : s / a(i, i);
		}
	}
}

// side L: op(A)*X = alpha*B; side R: X*op(A) = alpha*B; X overwrites B (m x n)
void dtrsm_(const char *side, const char *uplo, const char *transa, const char *diag, const int *m_, const int *n_, const double *alpha_,
            const double *A, const int *lda_, double *B, const int *ldb_) {
	psv_refblas_calls++;
	const long m = *m_, n = *n_, lda = *lda_, ldb = *ldb_;
	const double alpha = *alpha_;
	const bool left = is(side, 'L'), lower = is(uplo, 'L'), tr = !is(transa, 'N'), unit = is(diag, 'U');
	const bool eff_lower = lower != tr;
	auto a = [&](long i, long j) { return tr ? A[j + i * lda] : A[i + j * lda]; };   // element (i,j) of op(A)
	for (long j = 0; j < n; j++) for (long i = 0; i < m; i++) B[i + j * ldb] = alpha == 0 ? 0 : alpha * B[i + j * ldb];
	if (left) {
		// each column of B: triangular solve with op(A) (m x m)
		for (long c = 0; c < n; c++) {
			double *x = B + c * ldb;
			if (eff_lower) {
				for (long i = 0; i < m; i++) { double s = x[i]; for (long l = 0; l < i; l++) s -= a(i, l) * x[l]; x[i] = unit ? s : s / a(i, i); }
			} else {
				for (long i = m - 1; i >= 0; i--) { double s = x[i]; for (long l = i + 1; l < m; l++) s -= a(i, l) * x[l]; x[i] = unit ? s : s / a(i, i); }
			}
		}
	} else {
		// each row r of B: x' * op(A) = b'  <=>  op(A)' * x = b ; op(A)' is upper when op(A) is lower
		for (long r = 0; r < m; r++) {
			auto X = [&](long j) -> double & { return B[r + j * ldb]; };
			if (eff_lower) {   // op(A)' upper: back substitution, (op(A)')(j,l) = a(l,j)
				for (long j = n - 1; j >= 0; j--) { double s = X(j); for (long l = j + 1; l < n; l++) s -= a(l, j) * X(l); X(j) = unit ? s : s / a(j, j); }
			} else {
				for (long j = 0; j < n; j++) { double s = X(j); for (long l = 0; l < j; l++) s -= a(l, j) * X(l); X(j) = unit ? s : s / a(j, j); }
			}
		}
	}
}

// Cholesky factorisation of the uplo triangle in place; info = k > 0: leading minor k not positive definite
void dpotrf_(const char *uplo, const int *n_, double *A, const int *lda_, int *info) {
	psv_refblas_calls++;
	const long n = *n_, lda = *lda_;
	const bool lower = is(uplo, 'L');
	*info = 0;
	if (lower) {
		for (long j = 0; j < n; j++) {
			double d = A[j + j * lda];
			for (long l = 0; l < j; l++) d -= A[j + l * lda] * A[j + l * lda];
			if (!(d > 0) || !std::isfinite(d)) { A[j + j * lda] = d; *info = (int)(j + 1); return; }
			d = std::sqrt(d);
			A[j + j * lda] = d;
			for (long i = j + 1; i < n; i++) {
				double s = A[i + j * lda];
				for (long l = 0; l < j; l++) s -= A[i + l * lda] * A[j + l * lda];
				A[i + j * lda] = s / d;
			}
		}
	} else {
		for (long j = 0; j < n; j++) {
			double d = A[j + j * lda];
			for (long l = 0; l < j; l++) d -= A[l + j * lda] * A[l + j * lda];
			if (!(d > 0) || !std::isfinite(d)) { A[j + j * lda] = d; *info = (int)(j + 1); return; }
			d = std::sqrt(d);
			A[j + j * lda] = d;
			for (long i = j + 1; i < n; i++) {
				double s = A[j + i * lda];
				for (long l = 0; l < j; l++) s -= A[l + j * lda] * A[l + i * lda];
				A[j + i * lda] = s / d;
			}
		}
	}
}

} // extern "C"
