// Independent writer / parser of the documented photospline FITS layout
// (DESIGN §3.6). Shares no code with cfitsio or photospline.
//
// Layout: primary HDU = IEEE float image (BITPIX=-32) whose NAXISk are the
// table's axis lengths in *reversed* order (NAXIS1 = last table axis), data =
// the coefficient array in C order, big-endian; header cards TYPE, ORDERn (or
// one legacy ORDER for all dimensions), optional PERIODn, then auxiliary
// "key = 'string'" cards (keys longer than 8 characters through the HIERARCH
// convention). One IMAGE extension (BITPIX=-64, NAXIS=1) per dimension named
// EXTNAME='KNOTSn' holding the knot vector, and one named 'EXTENTS' holding
// 2*ndim doubles (lo0,hi0,lo1,hi1,...). Legacy files lack EXTENTS and/or
// PERIODn. 2880-byte blocks, 80-character cards, END card, headers padded
// with blanks, data padded with zeros.
#pragma once
#include "json.h"
#include <cstdint>
#include <string>
#include <utility>
#include <vector>

namespace psv {

typedef std::vector<uint8_t> Bytes;

struct AuxEntry {
	std::string key;
	std::string value;     // logical value (string content, or the literal text of a non-string card)
	bool literal = false;  // written unquoted (integer / real / logical literal)
	std::string comment;   // written after " / " when non-empty (never compared)
};

struct TableSpec {
	uint32_t ndim = 0;
	std::vector<uint32_t> order;
	std::vector<std::vector<double>> knots;
	std::vector<uint64_t> naxes;
	std::vector<float> coeff;            // C order (last axis fastest), prod(naxes) values
	bool has_extents = false;
	std::vector<double> extents;         // lo0,hi0,lo1,hi1,...
	bool has_periods = false;
	std::vector<double> periods;
	std::vector<AuxEntry> aux;           // ordered
	// legacy / writer-style flags (content-neutral for a conforming reader)
	bool single_order = false;           // one ORDER card (needs all orders equal)
	bool no_type = false;                // omit the TYPE card
	bool no_comments = false;            // omit the two COMMENT cards cfitsio writes
	bool ext_reversed = false;           // extensions written in reverse order (they are found by EXTNAME)
	int image_bitpix = 0;                // 0: as double_image says; 8 / 16 / 32: integer coefficient image (values rounded to that range), also accepted by the reader
	bool double_image = false;           // coefficient image stored as BITPIX = -64 (outside the documented layout, accepted by the reader)

	uint64_t ncoeffs() const { uint64_t n = 1; for (auto a : naxes) n *= a; return ndim ? n : 0; }
	Json to_json() const;
	static bool from_json(const Json &j, TableSpec &out, std::string &err);
	// content digest: ndim, orders, knots, naxes, coefficients (bit patterns),
	// extents, aux (values without trailing blanks). Not periods, not flags.
	uint64_t digest() const;
};

// shape rules of a well-formed table (C07's definition); `why` names the first rule broken
bool well_formed(const TableSpec &t, std::string &why);

Bytes encode_fits(const TableSpec &t);
// Parses an image in the documented layout. On success every array of `out` is
// filled exactly as stored. Fails (with `err`) on anything outside the layout.
bool decode_fits(const Bytes &img, TableSpec &out, std::string &err);

// ---- generic FITS structure scan (used by the decoder and by the corruptors) ----
struct Card {
	std::string raw;       // 80 characters
	std::string key;       // keyword (HIERARCH keys: the long name)
	bool has_value = false;
	bool is_string = false;
	std::string value;     // string content (unquoted, quotes un-doubled, trailing blanks kept) or literal text
	std::string comment;
};
struct Hdu {
	size_t hdr_off = 0;       // byte offset of the header
	size_t end_card = 0;      // index of the END card within cards (== cards.size() if missing)
	bool has_end = false;
	std::vector<Card> cards;  // up to and excluding END
	size_t data_off = 0;      // first byte after the header blocks
	uint64_t data_len = 0;    // unpadded data length implied by BITPIX/NAXISn/PCOUNT/GCOUNT
	size_t next_off = 0;      // start of the next HDU (data padded to 2880)
	int64_t bitpix = 0;
	std::vector<int64_t> naxis;
	std::string xtension, extname;
	const Card *find(const std::string &key) const {
		for (auto &c : cards) if (c.key == key) return &c;
		return nullptr;
	}
};
Card parse_card(const std::string &raw80);
// Scans as many HDUs as can be delimited; returns false (and `err`) when the
// image ends inside an HDU or a header is unusable. HDUs found so far stay in `out`.
bool scan_hdus(const Bytes &img, std::vector<Hdu> &out, std::string &err);

// card builders (80 characters each)
std::string card_logical(const std::string &key, bool v, const std::string &comment = "");
std::string card_int(const std::string &key, long long v, const std::string &comment = "");
std::string card_literal(const std::string &key, const std::string &text, const std::string &comment = "");
std::string card_string(const std::string &key, const std::string &v, const std::string &comment = "");
std::string card_comment(const std::string &text);
std::string card_end();
std::string real_literal(double v);      // shortest-exact FITS real literal

// exact float/double <-> text helpers shared with the generator
std::string floats_to_hex(const std::vector<float> &v);
bool floats_from_hex(const std::string &s, std::vector<float> &v);
Json doubles_to_json(const std::vector<double> &v);
std::vector<double> doubles_from_json(const Json &j);
std::string rstrip(const std::string &s);

} // namespace psv
