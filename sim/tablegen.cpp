// Table generator and storage corruptors: see tablegen.h.
#include "tablegen.h"
#include <algorithm>
#include <cfloat>
#include <cmath>
#include <cstring>

namespace psv {

namespace {

const size_t BLOCK = 2880;

uint64_t sub_seed(uint64_t seed, const char *label, uint64_t idx) {
	uint64_t x = seed ^ fnv1a(label, strlen(label)) ^ (idx * 0x9e3779b97f4a7c15ULL + 0x51ed27ULL);
	return splitmix64(x);
}

std::string hex64_str(uint64_t v) { char b[20]; snprintf(b, sizeof b, "%016llx", (unsigned long long)v); return b; }

float float_from_bits(uint32_t u) { float f; memcpy(&f, &u, 4); return f; }

float coeff_value(const std::string &cls, uint64_t seed, uint64_t idx, const std::vector<uint64_t> &naxes) {
	uint64_t x = seed ^ (idx * 0xd1342543de82ef95ULL + 0x2545f4914f6cdd1dULL);
	uint64_t r = splitmix64(x);
	uint64_t r2 = splitmix64(x);
	double u = (double)(r >> 11) * (1.0 / 9007199254740992.0);
	double u2 = (double)(r2 >> 11) * (1.0 / 9007199254740992.0);
	std::string c = cls;
	if (c == "mixed") {
		static const char *all[] = {"smooth", "random", "denormal", "huge", "negzero", "inf", "nan", "random", "smooth"};
		c = all[r2 % 9];
	}
	if (c == "smooth") {
		double v = 1.0;
		uint64_t rem = idx;
		for (size_t d = naxes.size(); d-- > 0;) {
			uint64_t i = rem % naxes[d];
			rem /= naxes[d];
			v *= 1.0 + 0.5 * std::sin(0.7 * (double)(i + 1) + (double)d);
		}
		return (float)v;
	}
	if (c == "random") {
		double n = std::sqrt(-2.0 * std::log(u < 1e-300 ? 1e-300 : u)) * std::cos(6.283185307179586 * u2);
		return (float)(n * 10.0);
	}
	if (c == "denormal") return float_from_bits((uint32_t)(r & 0x007fffffu) | ((r >> 40 & 1) ? 0x80000000u : 0u));
	if (c == "huge") {
		if (r % 7 == 0) return (r2 & 1) ? FLT_MAX : -FLT_MAX;
		return (float)((r2 & 1 ? 1.0 : -1.0) * (1e37 + u * 3.3e38));
	}
	if (c == "negzero") {
		switch (r % 4) { case 0: return -0.0f; case 1: return 0.0f; case 2: return FLT_MIN; default: return (float)(u - 0.5); }
	}
	if (c == "inf") {
		if (r % 5 == 0) return (r2 & 1) ? INFINITY : -INFINITY;
		return (float)((u - 0.5) * 100.0);
	}
	if (c == "nan") {
		if (r % 5 == 0) {
			// quiet NaNs with assorted payloads and signs
			uint32_t payload = (uint32_t)(r2 & 0x003fffffu);
			return float_from_bits(0x7fc00000u | payload | ((r2 >> 50 & 1) ? 0x80000000u : 0u));
		}
		return (float)((u - 0.5) * 100.0);
	}
	return 0.0f;
}

std::vector<double> make_knots(const std::string &style, uint64_t seed, uint32_t dim, uint32_t order, uint64_t naxes) {
	Rng r(sub_seed(seed, "knots", dim), "knots");
	size_t n = (size_t)(naxes + order + 1);
	std::vector<double> k(n);
	static const double steps[] = {1.0, 0.5, 0.1, 2.5, 1e-3, 1e3, 0.25};
	double step = steps[r.below(7)];
	double k0 = std::floor(r.uniform(-50, 50)) * step;
	if (style == "uniform") {
		for (size_t i = 0; i < n; i++) k[i] = k0 + step * (double)i;
	} else if (style == "irregular") {
		double x = k0;
		for (size_t i = 0; i < n; i++) { k[i] = x; x += step * (0.05 + 2.0 * r.unit() * r.unit()); }
	} else {   // repeated: clamped ends and interior multiplicities
		double x = k0;
		size_t i = 0;
		while (i < n) {
			size_t mult = 1;
			if (i == 0 || r.chance(0.25)) mult = 1 + (size_t)r.below(order + 1);
			if (i == 0) mult = order + 1;
			for (size_t m = 0; m < mult && i < n; m++) k[i++] = x;
			x += step * (0.1 + r.unit());
		}
		// clamp the upper end too
		for (size_t m = 0; m <= order && m < n; m++) k[n - 1 - m] = k[n - 1];
		std::sort(k.begin(), k.end());
	}
	return k;
}

const char FIRST[] = "AFJKMQRUVWY";
const char REST[] = "ABCDEFGHIJKLMNOPQRSTUVWXYZ0123456789_-";
const char HREST[] = "ABCDEFGHIJKLMNOPQRSTUVWXYZ0123456789_";

AuxEntry make_aux(const std::string &style, uint64_t seed, int idx) {
	Rng r(sub_seed(seed, "aux", (uint64_t)idx), "aux");
	AuxEntry e;
	bool mixed = style != "plain" && style != "long";
	std::string digits = std::to_string(idx);
	bool hier = mixed && r.chance(0.25);
	if (hier) {
		size_t len = 9 + (size_t)r.below(12);
		std::string k(1, FIRST[r.below(sizeof FIRST - 1)]);
		while (k.size() + digits.size() + 1 < len) k += HREST[r.below(26)];   // letters only before the index
		e.key = k + "X" + digits;
		while (e.key.size() < 9) e.key += 'Z';
	} else {
		size_t room = 8 - digits.size();
		size_t len = 1 + (size_t)r.below(room);
		std::string k(1, FIRST[r.below(sizeof FIRST - 1)]);
		while (k.size() < len) {
			char c = REST[r.below(sizeof REST - 1)];
			if (c >= '0' && c <= '9') c = 'A' + (c - '0');   // digits only in the index suffix: keys stay unique
			k += c;
		}
		e.key = k + digits;
	}
	// room for the value on the card
	size_t maxlen = hier ? (80 - 9 - e.key.size() - 3 - 2) : 68;
	if (maxlen > 12 && style != "long") maxlen -= 10;   // leave slack for quote doubling and padding to 8
	int kind = mixed ? (int)r.below(10) : 0;
	if (kind == 7) {   // integer literal
		e.literal = true;
		e.value = std::to_string(r.range(-100000, 100000));
	} else if (kind == 8) {   // real or logical literal
		e.literal = true;
		if (r.chance(0.3)) e.value = r.chance(0.5) ? "T" : "F";
		else e.value = real_literal(r.chance(0.5) ? r.uniform(-1e3, 1e3) : std::ldexp(r.unit(), (int)r.range(-40, 40)));
	} else {
		size_t len = r.chance(0.05) ? 0 : r.chance(0.1) ? maxlen : (size_t)r.below(std::min<size_t>(maxlen, 40) + 1);
		if (style == "long") len = maxlen - (size_t)r.below(9);   // every value (nearly) fills its card: 60..68 characters
		std::string v;
		for (size_t i = 0; i < len; i++) {
			char c = (char)(0x20 + r.below(0x7f - 0x20));
			if (c == '\'' && style != "quote") c = '"';
			v += c;
		}
		if (style == "quote" && len >= 1 && v.find('\'') == std::string::npos) v[r.below(len)] = '\'';
		// quote doubling must still fit on the card
		size_t q = (size_t)std::count(v.begin(), v.end(), '\'');
		while (v.size() + q > maxlen && !v.empty()) { if (v.back() == '\'') q--; v.pop_back(); }
		e.value = v;
	}
	if (mixed && r.chance(0.3)) {
		std::string cm = "c" + std::to_string(r.below(1000));
		size_t card = (hier ? 9 + e.key.size() + 3 : 10) + std::max<size_t>(e.value.size() + 2 + (size_t)std::count(e.value.begin(), e.value.end(), '\''), e.literal ? 20 : 10);
		if (card + 3 + cm.size() + 22 <= 80) e.comment = cm;
	}
	return e;
}

} // namespace

// ---------------------------------------------------------------- TableDesc
Json TableDesc::to_json() const {
	Json j = Json::object();
	j["seed"] = Json(hex64_str(seed));
	Json o = Json::array(); for (auto x : order) o.push(Json((long long)x));
	j["order"] = o;
	Json n = Json::array(); for (auto x : naxes) n.push(Json((long long)x));
	j["naxes"] = n;
	j["knots"] = Json(knots);
	j["coeffs"] = Json(coeffs);
	j["extents"] = Json(extents);
	j["periods"] = Json(periods);
	j["naux"] = Json(naux);
	j["aux"] = Json(aux);
	if (single_order) j["single_order"] = Json(true);
	if (no_type) j["no_type"] = Json(true);
	if (no_comments) j["no_comments"] = Json(true);
	if (ext_reversed) j["ext_reversed"] = Json(true);
	if (double_image) j["double_image"] = Json(true);
	if (image_bitpix) j["image_bitpix"] = Json(image_bitpix);
	return j;
}

bool TableDesc::from_json(const Json &j, TableDesc &d, std::string &err) {
	d = TableDesc();
	if (!j.is_obj()) { err = "desc: not an object"; return false; }
	d.seed = strtoull(j.gets("seed", "0").c_str(), nullptr, 16);
	for (auto &x : j["order"].a) d.order.push_back((uint32_t)x.integer());
	for (auto &x : j["naxes"].a) d.naxes.push_back((uint64_t)x.integer());
	d.knots = j.gets("knots", "uniform");
	d.coeffs = j.gets("coeffs", "smooth");
	d.extents = j.gets("extents", "default");
	d.periods = j.gets("periods", "none");
	d.naux = (int)j.geti("naux");
	d.aux = j.gets("aux", "plain");
	d.single_order = j.getb("single_order");
	d.no_type = j.getb("no_type");
	d.no_comments = j.getb("no_comments");
	d.ext_reversed = j.getb("ext_reversed");
	d.double_image = j.getb("double_image");
	d.image_bitpix = (int)j.geti("image_bitpix", 0);
	if (d.naxes.empty() || d.order.size() != d.naxes.size()) { err = "desc: order/naxes sizes"; return false; }
	uint64_t n = 1;
	for (size_t i = 0; i < d.naxes.size(); i++) {
		if (d.naxes[i] < 1 || d.naxes[i] > (1u << 24) || d.order[i] > 64) { err = "desc: axis out of range"; return false; }
		n *= d.naxes[i];
		if (n > (1u << 26)) { err = "desc: table too large"; return false; }
	}
	if (d.naux < 0 || d.naux > 1000) { err = "desc: naux"; return false; }
	return true;
}

// ---------------------------------------------------------------- generator
TableDesc gen_table(Rng &rng, const GenLimits &lim) {
	TableDesc d;
	d.seed = rng.next();
	// dimension count: all of 1..max reachable, low counts more common
	int span = lim.max_dims - lim.min_dims + 1;
	int nd = lim.min_dims + (int)std::min<uint64_t>(rng.below((uint64_t)span), rng.below((uint64_t)span + 2));
	if (nd > lim.max_dims) nd = lim.max_dims;
	if (rng.chance(0.15)) nd = lim.min_dims + (int)rng.below((uint64_t)span);
	// target size, log-uniform
	double lo = std::log((double)std::max<uint64_t>(lim.min_coeffs, 1)), hi = std::log((double)std::max<uint64_t>(lim.max_coeffs, lim.min_coeffs));
	double target = std::exp(rng.uniform(lo, hi));
	double g = std::pow(target, 1.0 / nd);
	std::vector<uint64_t> len((size_t)nd);
	for (int i = 0; i < nd; i++) {
		double f = std::exp(rng.uniform(-0.7, 0.7));
		len[(size_t)i] = (uint64_t)std::max(1.0, std::floor(g * f + 0.5));
	}
	auto prod = [&]() { uint64_t p = 1; for (auto l : len) p *= l; return p; };
	auto make_distinct = [&]() {
		std::sort(len.begin(), len.end());
		for (size_t i = 1; i < len.size(); i++) if (len[i] <= len[i - 1]) len[i] = len[i - 1] + 1;
	};
	make_distinct();
	// shrink towards the limit; distinctness is given up only when it cannot be kept
	for (int guard = 0; guard < 100000 && prod() > lim.max_coeffs; guard++) {
		size_t k = len.size() - 1;
		// the largest axis that can shrink while staying distinct from its lower neighbour
		bool done = false;
		for (size_t i = len.size(); i-- > 0 && !done;) {
			uint64_t floor_ = i ? len[i - 1] + 1 : 1;
			if (len[i] > floor_) { len[i]--; done = true; }
		}
		if (!done) {
			// already 1,2,3,...: allow duplicates, shrink the largest
			std::sort(len.begin(), len.end());
			k = len.size() - 1;
			if (len[k] > 1) len[k]--; else break;
		}
	}
	for (int guard = 0; guard < 100000 && prod() < lim.min_coeffs; guard++) len.back()++;
	// random axis order
	for (size_t i = len.size(); i > 1; i--) std::swap(len[i - 1], len[rng.below(i)]);
	d.naxes = len;
	d.single_order = lim.legacy && rng.chance(0.12);
	d.order.resize(len.size());
	if (d.single_order) {
		uint64_t m = *std::min_element(len.begin(), len.end());
		uint32_t o = (uint32_t)rng.below(std::min<uint64_t>((uint64_t)lim.max_order, m - 1) + 1);
		for (auto &x : d.order) x = o;
	} else {
		for (size_t i = 0; i < len.size(); i++)
			d.order[i] = (uint32_t)rng.below(std::min<uint64_t>((uint64_t)lim.max_order, len[i] - 1) + 1);
	}
	static const char *ks[] = {"uniform", "irregular", "repeated"};
	d.knots = ks[rng.below(3)];
	if (lim.special_values) {
		static const char *cs[] = {"smooth", "random", "denormal", "huge", "negzero", "inf", "nan", "mixed", "random", "smooth"};
		d.coeffs = cs[rng.below(10)];
	} else d.coeffs = rng.chance(0.5) ? "smooth" : "random";
	d.extents = (lim.legacy && rng.chance(0.15)) ? "none" : rng.chance(0.5) ? "explicit" : "default";
	d.periods = (lim.legacy && rng.chance(0.3)) ? "none" : rng.chance(0.6) ? "zero" : "values";
	int aspan = lim.max_aux - lim.min_aux;
	if (aspan <= 0) d.naux = lim.min_aux;
	else {
		double u = rng.unit();
		d.naux = u < 0.3 ? lim.min_aux : u < 0.65 ? lim.min_aux + (int)rng.below((uint64_t)std::min(aspan, 12) + 1) : lim.min_aux + (int)rng.below((uint64_t)aspan + 1);
	}
	d.aux = "plain";
	if (lim.exotic_aux && d.naux > 0) {
		if ((int)rng.below(1000) < lim.quote_permille) d.aux = "quote";
		else if (rng.chance(0.5)) d.aux = "mixed";
		else if (rng.chance(0.2)) d.aux = "long";
	}
	if (lim.writer_styles) {
		d.no_type = rng.chance(0.1);
		d.no_comments = rng.chance(0.3);
		d.ext_reversed = rng.chance(0.1);
	}
	return d;
}

TableSpec realize(const TableDesc &d) {
	TableSpec t;
	t.ndim = d.ndim();
	t.order = d.order;
	t.naxes = d.naxes;
	t.single_order = d.single_order;
	t.no_type = d.no_type;
	t.no_comments = d.no_comments;
	t.ext_reversed = d.ext_reversed;
	t.double_image = d.double_image;
	t.image_bitpix = d.image_bitpix;
	for (uint32_t i = 0; i < t.ndim; i++) t.knots.push_back(make_knots(d.knots, d.seed, i, d.order[i], d.naxes[i]));
	uint64_t n = d.ncoeffs();
	t.coeff.resize(n);
	uint64_t cs = sub_seed(d.seed, "coeff", 0);
	for (uint64_t i = 0; i < n; i++) t.coeff[i] = coeff_value(d.coeffs, cs, i, d.naxes);
	if (d.extents != "none") {
		t.has_extents = true;
		for (uint32_t i = 0; i < t.ndim; i++) {
			const auto &k = t.knots[i];
			double lo = k[d.order[i]], hi = k[k.size() - d.order[i] - 1];
			if (d.extents == "explicit") {
				Rng r(sub_seed(d.seed, "ext", i), "ext");
				double w = hi - lo;
				lo += w * r.uniform(-0.3, 0.3);
				hi += w * r.uniform(-0.3, 0.3) + (r.chance(0.2) ? 1.0 : 0.0);
			}
			t.extents.push_back(lo);
			t.extents.push_back(hi);
		}
	}
	if (d.periods != "none") {
		t.has_periods = true;
		static const double pv[] = {0.0, 1.0, 6.28, 360.0, 0.5, 24.0, 2.0};
		for (uint32_t i = 0; i < t.ndim; i++) {
			Rng r(sub_seed(d.seed, "per", i), "per");
			t.periods.push_back(d.periods == "zero" ? 0.0 : pv[r.below(7)]);
		}
	}
	for (int i = 0; i < d.naux; i++) t.aux.push_back(make_aux(d.aux, d.seed, i));
	return t;
}

std::vector<TableDesc> simplify_desc(const TableDesc &d) {
	std::vector<TableDesc> out;
	size_t nd = d.naxes.size();
	// big steps first: every axis halved at once, orders lowered with them
	{
		TableDesc c = d;
		bool changed = false;
		for (size_t i = 0; i < nd; i++) if (c.naxes[i] > 1) { c.naxes[i] = std::max<uint64_t>(1, c.naxes[i] / 2); changed = true; }
		uint32_t cap = 64;
		for (size_t i = 0; i < nd; i++) { if (c.order[i] + 1 > c.naxes[i]) c.order[i] = (uint32_t)c.naxes[i] - 1; cap = std::min(cap, c.order[i]); }
		if (c.single_order) for (auto &o : c.order) o = cap;
		if (changed && nd > 1) out.push_back(c);
	}
	// fewer dimensions
	if (nd > 1) {
		for (size_t drop = nd; drop-- > 0;) {
			TableDesc c = d;
			c.naxes.erase(c.naxes.begin() + (long)drop);
			c.order.erase(c.order.begin() + (long)drop);
			out.push_back(c);
			if (out.size() >= 3) break;
		}
	}
	// fewer auxiliary keys
	if (d.naux > 0) {
		TableDesc c = d; c.naux = 0; out.push_back(c);
		if (d.naux > 1) { c = d; c.naux = d.naux / 2; out.push_back(c); }
		c = d; c.naux = d.naux - 1; if (d.naux > 2) out.push_back(c);
	}
	// shorter axes (keeps naxes >= order+1 by lowering the order with it)
	for (size_t i = 0; i < nd; i++) {
		if (d.naxes[i] > 1) {
			TableDesc c = d;
			c.naxes[i] = std::max<uint64_t>(1, d.naxes[i] / 2);
			if (c.order[i] + 1 > c.naxes[i]) { if (d.single_order) for (auto &o : c.order) o = std::min<uint32_t>(o, (uint32_t)c.naxes[i] - 1); else c.order[i] = (uint32_t)c.naxes[i] - 1; }
			out.push_back(c);
			if (d.naxes[i] > 2) {
				c = d; c.naxes[i] = d.naxes[i] - 1;
				if (c.order[i] + 1 > c.naxes[i]) { if (d.single_order) for (auto &o : c.order) o = std::min<uint32_t>(o, (uint32_t)c.naxes[i] - 1); else c.order[i] = (uint32_t)c.naxes[i] - 1; }
				out.push_back(c);
			}
		}
	}
	// lower orders
	for (size_t i = 0; i < nd; i++) {
		if (d.order[i] > 0) {
			TableDesc c = d;
			if (d.single_order) for (auto &o : c.order) o = d.order[i] - 1; else c.order[i] = d.order[i] - 1;
			out.push_back(c);
			if (d.single_order) break;
		}
	}
	// plainer styles
	if (d.coeffs != "smooth") { TableDesc c = d; c.coeffs = "smooth"; out.push_back(c); }
	if (d.knots != "uniform") { TableDesc c = d; c.knots = "uniform"; out.push_back(c); }
	if (d.aux != "plain" && d.naux > 0) { TableDesc c = d; c.aux = d.aux == "quote" ? "mixed" : "plain"; out.push_back(c); }   // "long" -> "plain"
	if (d.periods != "none") { TableDesc c = d; c.periods = d.periods == "values" ? "zero" : "none"; out.push_back(c); }
	if (d.extents == "explicit") { TableDesc c = d; c.extents = "default"; out.push_back(c); }
	if (d.single_order) { TableDesc c = d; c.single_order = false; out.push_back(c); }
	if (d.double_image) { TableDesc c = d; c.double_image = false; out.push_back(c); }
	if (d.image_bitpix) { TableDesc c = d; c.image_bitpix = 0; out.push_back(c); }
	if (d.no_type) { TableDesc c = d; c.no_type = false; out.push_back(c); }
	if (d.no_comments) { TableDesc c = d; c.no_comments = false; out.push_back(c); }
	if (d.ext_reversed) { TableDesc c = d; c.ext_reversed = false; out.push_back(c); }
	return out;
}

// ---------------------------------------------------------------- foreign files
const std::vector<std::string> &foreign_kinds() {
	static const std::vector<std::string> k = {"empty_primary", "bintable", "asciitable", "int16_image", "compressed",
	                                           "float_noext", "double_primary", "garbage", "text", "empty", "short", "wrapping_shape", "wrapping_inner"};
	return k;
}

namespace {
void put_cards(Bytes &out, const std::vector<std::string> &cards) {
	for (auto &c : cards) out.insert(out.end(), c.begin(), c.end());
	std::string e = card_end();
	out.insert(out.end(), e.begin(), e.end());
	while (out.size() % BLOCK) out.push_back(' ');
}
void pad_zero(Bytes &out) { while (out.size() % BLOCK) out.push_back(0); }
std::vector<std::string> empty_primary() {
	return {card_logical("SIMPLE", true, "conforms"), card_int("BITPIX", 8), card_int("NAXIS", 0), card_logical("EXTEND", true)};
}
} // namespace

Bytes foreign_fits(const std::string &kind, uint64_t seed) {
	Rng r(seed, "foreign");
	Bytes out;
	if (kind == "empty_primary") {
		put_cards(out, empty_primary());
	} else if (kind == "bintable") {
		put_cards(out, empty_primary());
		int rows = 1 + (int)r.below(20);
		put_cards(out, {card_string("XTENSION", "BINTABLE", "binary table extension"), card_int("BITPIX", 8), card_int("NAXIS", 2),
		                card_int("NAXIS1", 12), card_int("NAXIS2", rows), card_int("PCOUNT", 0), card_int("GCOUNT", 1),
		                card_int("TFIELDS", 2), card_string("TTYPE1", "X"), card_string("TFORM1", "1E"),
		                card_string("TTYPE2", "Y"), card_string("TFORM2", "1D"), card_string("EXTNAME", r.chance(0.5) ? "KNOTS0" : "EVENTS")});
		for (int i = 0; i < rows * 12; i++) out.push_back((uint8_t)r.below(256));
		pad_zero(out);
	} else if (kind == "asciitable") {
		put_cards(out, empty_primary());
		int rows = 1 + (int)r.below(10);
		put_cards(out, {card_string("XTENSION", "TABLE", "ASCII table extension"), card_int("BITPIX", 8), card_int("NAXIS", 2),
		                card_int("NAXIS1", 16), card_int("NAXIS2", rows), card_int("PCOUNT", 0), card_int("GCOUNT", 1),
		                card_int("TFIELDS", 1), card_string("TTYPE1", "V"), card_int("TBCOL1", 1), card_string("TFORM1", "E16.7")});
		for (int i = 0; i < rows; i++) { char b[32]; snprintf(b, sizeof b, "%16.7E", r.uniform(-1, 1)); out.insert(out.end(), b, b + 16); }
		while (out.size() % BLOCK) out.push_back(' ');
	} else if (kind == "int16_image") {
		int a = 2 + (int)r.below(20), b = 2 + (int)r.below(20);
		put_cards(out, {card_logical("SIMPLE", true), card_int("BITPIX", 16), card_int("NAXIS", 2), card_int("NAXIS1", a), card_int("NAXIS2", b),
		                card_literal("BSCALE", "2.0"), card_literal("BZERO", "32768.")});
		for (int i = 0; i < a * b * 2; i++) out.push_back((uint8_t)r.below(256));
		pad_zero(out);
	} else if (kind == "compressed") {
		put_cards(out, empty_primary());
		put_cards(out, {card_string("XTENSION", "BINTABLE", "binary table extension"), card_int("BITPIX", 8), card_int("NAXIS", 2),
		                card_int("NAXIS1", 8), card_int("NAXIS2", 0), card_int("PCOUNT", 0), card_int("GCOUNT", 1),
		                card_int("TFIELDS", 1), card_string("TTYPE1", "COMPRESSED_DATA"), card_string("TFORM1", "1PB(0)"),
		                card_logical("ZIMAGE", true), card_string("ZCMPTYPE", "RICE_1"), card_int("ZBITPIX", -32), card_int("ZNAXIS", 2),
		                card_int("ZNAXIS1", 10), card_int("ZNAXIS2", 10), card_int("ZTILE1", 10), card_int("ZTILE2", 1),
		                card_int("ORDER0", 2), card_int("ORDER1", 2)});
	} else if (kind == "float_noext") {
		int a = 3 + (int)r.below(6), b = 3 + (int)r.below(6);
		put_cards(out, {card_logical("SIMPLE", true), card_int("BITPIX", -32), card_int("NAXIS", 2), card_int("NAXIS1", a), card_int("NAXIS2", b),
		                card_logical("EXTEND", true), card_int("ORDER0", 2), card_int("ORDER1", 2)});
		for (int i = 0; i < a * b * 4; i++) out.push_back((uint8_t)r.below(256));
		pad_zero(out);
	} else if (kind == "double_primary") {
		int a = 4 + (int)r.below(6);
		put_cards(out, {card_logical("SIMPLE", true), card_int("BITPIX", -64), card_int("NAXIS", 1), card_int("NAXIS1", a),
		                card_logical("EXTEND", true), card_int("ORDER0", 1)});
		for (int i = 0; i < a * 8; i++) out.push_back((uint8_t)r.below(256));
		pad_zero(out);
	} else if (kind == "garbage") {
		size_t n = BLOCK * (1 + r.below(4));
		for (size_t i = 0; i < n; i++) out.push_back((uint8_t)r.below(256));
	} else if (kind == "text") {
		std::string s = "SIMPLE text file, not FITS at all\n";
		size_t n = 100 + r.below(6000);
		while (out.size() < n) out.insert(out.end(), s.begin(), s.end());
	} else if (kind == "wrapping_shape") {
		// a spline file that is consistent in every header and knot vector, whose axis lengths
		// multiply to a multiple of 2^64: the element count of the coefficient array wraps to 0
		// (in the reader and in cfitsio's size of the data unit alike), so the file is tiny
		TableSpec t;
		static const int shapes[][2] = {{64, 1}, {32, 2}, {16, 4}, {8, 8}, {22, 3}, {13, 5}, {11, 6}};   // {dimensions, log2(axis length)}
		const int *sh = shapes[r.below(7)];
		std::vector<uint64_t> ax((size_t)sh[0], (uint64_t)1 << sh[1]);
		if (r.chance(0.4)) ax.insert(ax.begin() + (long)r.below(ax.size() + 1), 3 + r.below(5));      // an odd factor changes nothing
		t.ndim = (uint32_t)ax.size();
		t.naxes = ax;
		for (uint32_t d = 0; d < t.ndim; d++) {
			uint32_t o = (uint32_t)r.below(std::min<uint64_t>(ax[d], 4));          // naxes >= order+1
			t.order.push_back(o);
			std::vector<double> k(ax[d] + o + 1);
			double x = r.uniform(-2, 2);
			for (auto &v : k) { v = x; x += r.chance(0.1) ? 0.0 : r.uniform(0.1, 1.0); }
			t.knots.push_back(k);
		}
		if (r.chance(0.5)) {
			t.has_extents = true;
			for (uint32_t d = 0; d < t.ndim; d++) { t.extents.push_back(t.knots[d][t.order[d]]); t.extents.push_back(t.knots[d][t.knots[d].size() - t.order[d] - 1]); }
		}
		out = encode_fits(t);
	} else if (kind == "wrapping_inner") {
		// as wrapping_shape, but the *inner* axes multiply to 2^64 + r with a small non-zero r (2^64 + r is chosen
		// smooth and split into axis lengths), so no partial product is zero and only an overflow check of every
		// multiplication sees it; one more small axis follows. The element count wraps to r*m: a few KB of data.
		struct Smooth { uint32_t r; std::vector<uint64_t> f; };
		static std::vector<Smooth> pool;
		if (pool.empty()) {
			for (uint32_t rr = 1; rr < 6000 && pool.size() < 12; rr++) {
				unsigned __int128 v = ((unsigned __int128)1 << 64) + rr;
				std::vector<uint64_t> f;
				for (uint64_t q = 2; q < 30000 && v > 1; q++) while (v % q == 0) { f.push_back(q); v /= q; }
				if (v == 1 && f.size() >= 3) pool.push_back(Smooth{rr, f});
			}
		}
		TableSpec t;
		if (!pool.empty()) {
			const Smooth &sm = pool[r.below(pool.size())];
			// group the prime factors into at most 7 axes, each below 40000
			std::vector<uint64_t> ax;
			std::vector<uint64_t> f = sm.f;
			for (size_t i = f.size(); i > 1; i--) std::swap(f[i - 1], f[r.below(i)]);
			for (uint64_t q : f) {
				bool placed = false;
				if (!ax.empty() && r.chance(0.6)) { size_t k = r.below(ax.size()); if (ax[k] * q < 40000) { ax[k] *= q; placed = true; } }
				if (!placed) { if (ax.size() < 7) ax.push_back(q); else { size_t k = 0; for (size_t j = 1; j < ax.size(); j++) if (ax[j] < ax[k]) k = j; ax[k] *= q; } }
			}
			uint64_t m = 2 + r.below(3);
			bool outer_first = r.chance(0.5);
			// naxes[0] is the slowest axis: the extra axis goes in front (its stride is the wrapped inner product) or behind
			if (outer_first) ax.insert(ax.begin(), m); else ax.push_back(m);
			t.ndim = (uint32_t)ax.size();
			t.naxes = ax;
			for (uint32_t d = 0; d < t.ndim; d++) {
				uint32_t o = (uint32_t)r.below(std::min<uint64_t>(ax[d], 3));
				t.order.push_back(o);
				std::vector<double> k(ax[d] + o + 1);
				double x = r.uniform(-2, 2);
				for (auto &v : k) { v = x; x += r.uniform(0.1, 1.0); }
				t.knots.push_back(k);
			}
			uint64_t wrapped = 1;
			for (auto a : ax) wrapped *= a;     // modulo 2^64
			if (wrapped > 200000) wrapped = 200000;
			t.coeff.assign((size_t)wrapped, 0.f);
			for (size_t k = 0; k < t.coeff.size(); k++) t.coeff[k] = 1.0f + (float)(k % 5);
			t.has_extents = true;
			for (uint32_t d = 0; d < t.ndim; d++) { t.extents.push_back(t.knots[d][t.order[d]]); t.extents.push_back(t.knots[d][t.knots[d].size() - t.order[d] - 1]); }
			out = encode_fits(t);
		}
	} else if (kind == "short") {
		std::string s = card_logical("SIMPLE", true) + card_int("BITPIX", -32);
		out.assign(s.begin(), s.end());
		out.resize(1 + r.below(159));
	}   // "empty": zero bytes
	return out;
}

// ---------------------------------------------------------------- corruption
std::string corruption_class(const Json &op) {
	std::string c = op.gets("c");
	if (c == "bitflip" || c == "setbyte" || c == "overwrite") return "bytes";
	if (c == "truncate") return "truncate";
	if (c == "zero_block" || c == "drop_block" || c == "dup_block" || c == "swap_blocks") return "blocks";
	if (c == "card_set" || c == "card_del" || c == "card_add" || c == "del_end" || c == "resize_primary" || c == "swap_naxis") return "card";
	if (c == "drop_ext" || c == "swap_ext" || c == "dup_ext" || c == "resize_ext") return "ext";
	if (c == "knot_set" || c == "knot_swap" || c == "knots_reverse") return "knots";
	if (c == "foreign") return "foreign";
	if (c == "reshape") return "shape";
	return "other";
}

namespace {

Json mk(const char *c) { Json j = Json::object(); j["c"] = Json(c); return j; }

// value catalogue for structured header edits
Json gen_card_edit(Rng &r, const std::vector<Hdu> &hdus, const TableSpec &spec) {
	uint32_t nd = spec.ndim ? spec.ndim : 1;
	int what = (int)r.below(100);
	Json j = mk("card_set");
	auto lit = [&](int hdu, const std::string &key, const std::string &val) {
		j["hdu"] = Json(hdu); j["key"] = Json(key); j["val"] = Json(val); j["str"] = Json(false);
	};
	auto str = [&](int hdu, const std::string &key, const std::string &val) {
		j["hdu"] = Json(hdu); j["key"] = Json(key); j["val"] = Json(val); j["str"] = Json(true);
	};
	uint32_t d = (uint32_t)r.below(nd);
	if (what < 30) {   // ORDERn / ORDER
		long long o = spec.order.empty() ? 2 : spec.order[d], na = spec.naxes.empty() ? 4 : (long long)spec.naxes[d];
		std::vector<std::string> vals = {"0", "1", "5", std::to_string(o + 1), std::to_string(o > 0 ? o - 1 : 3), std::to_string(na), std::to_string(na + o),
		                                 "-1", "2000000000", "4294967295", "4294967296", "2147483650", "2.5", "T", "1000"};
		std::string key = spec.single_order ? "ORDER" : "ORDER" + std::to_string(d);
		if (r.chance(0.08)) str(0, key, "2"); else lit(0, key, vals[r.below(vals.size())]);
	} else if (what < 38) {   // NAXIS
		std::vector<std::string> vals = {"0", "1", std::to_string(nd + 1), std::to_string(nd > 1 ? nd - 1 : 2), "999", "-1", "1000"};
		lit((int)r.below(hdus.size() ? hdus.size() : 1), "NAXIS", vals[r.below(vals.size())]);
	} else if (what < 58) {   // NAXISn
		int h = r.chance(0.6) ? 0 : (int)r.below(hdus.size() ? hdus.size() : 1);
		long long n = h == 0 ? (spec.naxes.empty() ? 4 : (long long)spec.naxes[nd - 1 - d]) : 8;
		std::vector<std::string> vals = {"0", "1", std::to_string(n + 1), std::to_string(n > 1 ? n - 1 : 2), std::to_string(2 * n), "2147483648",
		                                 "4611686018427387904", "-1", "100000", "5"};
		lit(h, "NAXIS" + std::to_string(h == 0 ? d + 1 : 1), vals[r.below(vals.size())]);
	} else if (what < 68) {   // BITPIX
		std::vector<std::string> vals = {"8", "16", "32", "64", "-64", "-32", "0", "-33"};
		lit((int)r.below(hdus.size() ? hdus.size() : 1), "BITPIX", vals[r.below(vals.size())]);
	} else if (what < 80) {   // EXTNAME
		std::vector<std::string> vals = {"KNOTS0", "KNOTS1", "KNOTS9", "EXTENTS", "EXTENT", "knots0", "", "KNOTS" + std::to_string(nd)};
		str(1 + (int)r.below(hdus.size() > 1 ? hdus.size() - 1 : 1), "EXTNAME", vals[r.below(vals.size())]);
	} else if (what < 86) {   // PERIODn
		std::vector<std::string> vals = {"NAN", "1E999", "-1.", "1.5", "T"};
		if (r.chance(0.3)) str(0, "PERIOD" + std::to_string(d), "abc"); else lit(0, "PERIOD" + std::to_string(d), vals[r.below(vals.size())]);
	} else if (what < 92) {   // other structural keys
		switch (r.below(5)) {
		case 0: str(1 + (int)r.below(hdus.size() > 1 ? hdus.size() - 1 : 1), "XTENSION", r.chance(0.5) ? "BINTABLE" : "TABLE"); break;
		case 1: lit(1 + (int)r.below(hdus.size() > 1 ? hdus.size() - 1 : 1), "PCOUNT", r.chance(0.5) ? "100" : "-1"); break;
		case 2: lit(1 + (int)r.below(hdus.size() > 1 ? hdus.size() - 1 : 1), "GCOUNT", r.chance(0.5) ? "0" : "2"); break;
		case 3: lit(0, "SIMPLE", "F"); break;
		default: lit(0, "EXTEND", "F"); break;
		}
	} else if (what < 96) {   // delete a structural card
		j = mk("card_del");
		std::vector<std::string> keys = {"ORDER" + std::to_string(d), "NAXIS" + std::to_string(d + 1), "BITPIX", "NAXIS", "EXTNAME", "ORDER", "TYPE", "SIMPLE", "XTENSION", "PCOUNT"};
		j["hdu"] = Json((int)r.below(hdus.size() ? hdus.size() : 1));
		j["key"] = Json(keys[r.below(keys.size())]);
	} else {   // add a card
		j = mk("card_add");
		static const char *adds[][2] = {{"ORDER", "3"}, {"ORDER", "0"}, {"BSCALE", "2.0"}, {"BZERO", "32768."}, {"BLANK", "0"}, {"ORDER0", "7"}, {"NAXIS1", "3"}, {"EXTNAME", "'KNOTS0  '"}};
		size_t k = r.below(8);
		j["hdu"] = Json(r.chance(0.7) ? 0 : (int)r.below(hdus.size() ? hdus.size() : 1));
		j["key"] = Json(adds[k][0]); j["val"] = Json(adds[k][1]);
	}
	return j;
}

} // namespace

Json gen_corruption(Rng &r, const Bytes &base, const TableSpec &spec) {
	std::vector<Hdu> hdus;
	std::string err;
	scan_hdus(base, hdus, err);
	size_t size = base.size() ? base.size() : 1;
	size_t nblk = (base.size() + BLOCK - 1) / BLOCK;
	if (!nblk) nblk = 1;
	// a byte position: header bytes are the interesting ones, so bias towards them
	auto pos = [&]() -> uint64_t {
		if (!hdus.empty() && r.chance(0.6)) {
			const Hdu &h = hdus[r.below(hdus.size())];
			size_t hdr_len = (h.cards.size() + 1) * 80;
			return h.hdr_off + r.below(hdr_len ? hdr_len : 1);
		}
		return r.below(size);
	};
	int w = (int)r.below(100);
	if (w < 14) { Json j = mk("bitflip"); j["off"] = Json((long long)pos()); j["bit"] = Json((int)r.below(8)); return j; }
	if (w < 20) { Json j = mk("setbyte"); j["off"] = Json((long long)pos()); j["val"] = Json((int)(r.chance(0.3) ? 0 : r.chance(0.5) ? 0x20 + r.below(0x5f) : r.below(256))); return j; }
	if (w < 26) {
		Json j = mk("overwrite"); j["off"] = Json((long long)pos());
		size_t n = 1 + r.below(r.chance(0.2) ? 200 : 16);
		std::string hex; char b[4];
		for (size_t i = 0; i < n; i++) { snprintf(b, sizeof b, "%02x", (unsigned)r.below(256)); hex += b; }
		j["hex"] = Json(hex);
		return j;
	}
	if (w < 38) {
		Json j = mk("truncate");
		uint64_t len;
		int t = (int)r.below(10);
		if (t < 3 || hdus.empty()) len = r.below(size);
		else if (t < 6) len = BLOCK * r.below(nblk);                       // at a block boundary
		else { const Hdu &h = hdus[r.below(hdus.size())]; len = r.chance(0.5) ? h.data_off : h.hdr_off; if (r.chance(0.3)) len += r.below(BLOCK); }
		j["len"] = Json((long long)len);
		return j;
	}
	if (w < 50) {
		static const char *k[] = {"zero_block", "drop_block", "dup_block", "swap_blocks"};
		size_t i = r.below(4);
		Json j = mk(k[i]);
		if (i == 3) { j["a"] = Json((long long)r.below(nblk)); j["b"] = Json((long long)r.below(nblk)); }
		else j["blk"] = Json((long long)r.below(nblk));
		return j;
	}
	if (w < 74) {
		// a *consistent* re-shape of one dimension around the reader's validation boundaries: order,
		// axis length, knot count and array sizes all agree, only the combination may be inadmissible
		// (exactly `order` coefficients, exactly order+1, order 0 with one coefficient, ...)
		if (r.chance(0.12) && spec.ndim) {
			Json j = mk("reshape");
			uint32_t d = (uint32_t)r.below(spec.ndim);
			long long o = (long long)r.below(6);
			long long deltas[] = {0, 1, -1, 2, 1, 0};            // naxes = order + delta  (delta<=0: inadmissible)
			long long n = o + deltas[r.below(6)];
			if (n < 1) n = 1;
			j["dim"] = Json((long long)d); j["order"] = Json(o); j["naxes"] = Json(n);
			j["nknots_off"] = Json((long long)(r.chance(0.8) ? 0 : (r.chance(0.5) ? 1 : -1)));   // sometimes one knot too many / too few
			return j;
		}
		if (spec.ndim >= 2 && r.chance(0.08)) { Json j = mk("swap_naxis"); j["a"] = Json((long long)r.below(spec.ndim)); j["b"] = Json((long long)r.below(spec.ndim)); return j; }
		if (r.chance(0.08)) { Json j = mk("del_end"); j["hdu"] = Json((long long)r.below(hdus.size() ? hdus.size() : 1)); return j; }
		if (r.chance(0.1)) {
			Json j = mk("resize_primary");
			uint32_t nd = spec.ndim ? spec.ndim : 1;
			uint32_t ax = (uint32_t)r.below(nd);
			long long n = spec.naxes.empty() ? 4 : (long long)spec.naxes[nd - 1 - ax];
			long long vals[] = {n + 1, n > 1 ? n - 1 : 2, 2 * n, 1, n + 2};
			j["axis"] = Json((long long)ax + 1); j["n"] = Json(vals[r.below(5)]);
			return j;
		}
		return gen_card_edit(r, hdus, spec);
	}
	size_t next = hdus.size() > 1 ? hdus.size() - 1 : 1;
	if (w < 86) {
		int k = (int)r.below(4);
		if (k == 0) { Json j = mk("drop_ext"); j["hdu"] = Json((long long)(1 + r.below(next))); return j; }
		if (k == 1) { Json j = mk("swap_ext"); j["a"] = Json((long long)(1 + r.below(next))); j["b"] = Json((long long)(1 + r.below(next))); return j; }
		if (k == 2) { Json j = mk("dup_ext"); j["hdu"] = Json((long long)(1 + r.below(next))); return j; }
		Json j = mk("resize_ext"); size_t h = 1 + r.below(next); j["hdu"] = Json((long long)h);
		long long n = hdus.size() > h && !hdus[h].naxis.empty() ? hdus[h].naxis[0] : 8;
		long long vals[] = {n + 1, n > 1 ? n - 1 : 2, 1, 2, 2 * n, n + 3, n > 3 ? n - 3 : 1};
		j["n"] = Json(vals[r.below(7)]);
		return j;
	}
	if (w < 95) {
		uint32_t nd = spec.ndim ? spec.ndim : 1;
		uint32_t d = (uint32_t)r.below(nd);
		size_t nk = spec.knots.size() > d ? spec.knots[d].size() : 4;
		int k = (int)r.below(10);
		if (k < 5) {
			Json j = mk("knot_set"); j["dim"] = Json((long long)d); j["idx"] = Json((long long)r.below(nk ? nk : 1));
			static const char *vals[] = {"nan", "inf", "-inf", "0x1p+1000", "-0x1p+1000", "0x0p+0"};
			j["val"] = Json(vals[r.below(6)]);
			return j;
		}
		if (k < 8) { Json j = mk("knot_swap"); j["dim"] = Json((long long)d); j["i"] = Json((long long)r.below(nk ? nk : 1)); j["j"] = Json((long long)r.below(nk ? nk : 1)); return j; }
		Json j = mk("knots_reverse"); j["dim"] = Json((long long)d); return j;
	}
	Json j = mk("foreign");
	j["kind"] = Json(r.pick(foreign_kinds()));
	j["seed"] = Json((long long)(r.next() >> 16));
	return j;
}

namespace {

bool hex_bytes(const std::string &s, Bytes &out) {
	if (s.size() % 2) return false;
	out.clear();
	for (size_t i = 0; i < s.size(); i += 2) {
		unsigned v;
		if (sscanf(s.substr(i, 2).c_str(), "%2x", &v) != 1) return false;
		out.push_back((uint8_t)v);
	}
	return true;
}

// index of the card `key` in header h (HIERARCH names compare by long name)
int find_card(const Hdu &h, const std::string &key) {
	for (size_t i = 0; i < h.cards.size(); i++) if (h.cards[i].key == key) return (int)i;
	return -1;
}
void write_card(Bytes &img, const Hdu &h, size_t idx, const std::string &card80) {
	if (h.hdr_off + 80 * idx + 80 > img.size()) return;   // never write outside the image
	memcpy(img.data() + h.hdr_off + 80 * idx, card80.data(), 80);
}

} // namespace

bool apply_corruption(Bytes &img, const Json &op, std::string &note) {
	std::string c = op.gets("c");
	note.clear();
	if (c == "foreign") {
		img = foreign_fits(op.gets("kind"), (uint64_t)op.geti("seed"));
		note = "replaced by " + op.gets("kind");
		return true;
	}
	if (c == "reshape") {
		TableSpec t; std::string err;
		if (!decode_fits(img, t, err) || !t.ndim) { note = "image not decodable: " + err; return false; }
		uint32_t d = (uint32_t)((uint64_t)op.geti("dim") % t.ndim);
		uint32_t o = (uint32_t)op.geti("order");
		uint64_t n = (uint64_t)std::max<int64_t>(1, op.geti("naxes"));
		int64_t nk = (int64_t)n + o + 1 + op.geti("nknots_off");
		if (nk < 1) nk = 1;
		t.order[d] = o;
		if (t.single_order) for (auto &v : t.order) v = o;
		t.naxes[d] = n;
		t.knots[d].resize((size_t)nk);
		for (size_t k = 0; k < t.knots[d].size(); k++) t.knots[d][k] = (double)k - (double)o;
		uint64_t total = 1;
		for (auto a : t.naxes) total *= a;
		if (total > 2000000) { note = "too large"; return false; }
		t.coeff.assign((size_t)total, 0.f);
		for (size_t k = 0; k < t.coeff.size(); k++) t.coeff[k] = 1.0f + (float)(k % 7);
		if (t.has_extents && t.extents.size() >= 2 * (size_t)t.ndim) { t.extents[2 * d] = 0; t.extents[2 * d + 1] = (double)n; }
		img = encode_fits(t);
		note = "dimension " + std::to_string(d) + " re-shaped to order " + std::to_string(o) + ", " + std::to_string(n) + " coefficients, " + std::to_string(nk) + " knots";
		return true;
	}
	if (c == "bitflip" || c == "setbyte" || c == "overwrite") {
		if (img.empty()) { note = "empty image"; return false; }
		size_t off = (size_t)((uint64_t)op.geti("off") % img.size());
		if (c == "bitflip") img[off] ^= (uint8_t)(1u << (op.geti("bit") & 7));
		else if (c == "setbyte") { uint8_t v = (uint8_t)op.geti("val"); if (img[off] == v) { note = "byte already has that value"; return false; } img[off] = v; }
		else {
			Bytes b;
			if (!hex_bytes(op.gets("hex"), b) || b.empty()) { note = "bad hex"; return false; }
			for (size_t i = 0; i < b.size() && off + i < img.size(); i++) img[off + i] = b[i];
		}
		return true;
	}
	if (c == "truncate") {
		if (img.empty()) { note = "empty image"; return false; }
		size_t len = (size_t)((uint64_t)op.geti("len") % img.size());
		img.resize(len);
		return true;
	}
	size_t nblk = img.size() / BLOCK;
	if (c == "zero_block" || c == "drop_block" || c == "dup_block" || c == "swap_blocks") {
		if (!nblk) { note = "no whole block"; return false; }
		if (c == "swap_blocks") {
			size_t a = (size_t)((uint64_t)op.geti("a") % nblk), b = (size_t)((uint64_t)op.geti("b") % nblk);
			if (a == b) { note = "same block"; return false; }
			std::swap_ranges(img.begin() + (long)(a * BLOCK), img.begin() + (long)((a + 1) * BLOCK), img.begin() + (long)(b * BLOCK));
			return true;
		}
		size_t k = (size_t)((uint64_t)op.geti("blk") % nblk);
		if (c == "zero_block") std::fill(img.begin() + (long)(k * BLOCK), img.begin() + (long)((k + 1) * BLOCK), 0);
		else if (c == "drop_block") img.erase(img.begin() + (long)(k * BLOCK), img.begin() + (long)((k + 1) * BLOCK));
		else { Bytes blk(img.begin() + (long)(k * BLOCK), img.begin() + (long)((k + 1) * BLOCK)); img.insert(img.begin() + (long)((k + 1) * BLOCK), blk.begin(), blk.end()); }
		return true;
	}
	// structured edits need the HDU layout of the current image
	std::vector<Hdu> hdus;
	std::string err;
	scan_hdus(img, hdus, err);
	if (hdus.empty()) { note = "image has no parseable HDU: " + err; return false; }
	auto hdu_index = [&](const char *k, bool ext_only) -> int {
		int64_t v = op.geti(k);
		if (ext_only) { if (hdus.size() < 2) return -1; return 1 + (int)((uint64_t)(v < 1 ? 0 : v - 1) % (hdus.size() - 1)); }
		return (int)((uint64_t)(v < 0 ? 0 : v) % hdus.size());
	};
	if (c == "card_set" || c == "card_del" || c == "card_add" || c == "del_end") {
		int hi = hdu_index("hdu", false);
		const Hdu &h = hdus[(size_t)hi];
		if (c == "del_end") {
			if (!h.has_end) { note = "no END"; return false; }
			write_card(img, h, h.end_card, std::string(80, ' '));
			return true;
		}
		std::string key = op.gets("key");
		if (c == "card_add") {
			size_t used = h.cards.size() + 1;   // + END
			if (used % 36 == 0) { note = "header block full"; return false; }
			std::string val = op.gets("val");
			std::string card = !val.empty() && val[0] == '\'' ? card_literal(key, val) : card_literal(key, val);
			if (!val.empty() && val[0] == '\'') {   // pre-quoted string: left-justified
				card = key; card.append(8 - std::min<size_t>(8, card.size()), ' '); card += "= " + val; card.append(80 - card.size(), ' ');
			}
			write_card(img, h, h.end_card, card);
			write_card(img, h, h.end_card + 1, card_end());
			return true;
		}
		int ci = find_card(h, key);
		if (ci < 0) { note = "no card " + key + " in HDU " + std::to_string(hi); return false; }
		if (c == "card_set") {
			std::string card = op.getb("str") ? card_string(key, op.gets("val")) : card_literal(key, op.gets("val"));
			if (card == h.cards[(size_t)ci].raw) { note = "card unchanged"; return false; }
			write_card(img, h, (size_t)ci, card);
			return true;
		}
		// card_del: shift the following cards (and END) up, blank the freed slot
		for (size_t i = (size_t)ci; i < h.end_card; i++) {
			std::string nxt = i + 1 < h.end_card ? h.cards[i + 1].raw : card_end();
			write_card(img, h, i, nxt);
		}
		write_card(img, h, h.end_card, std::string(80, ' '));
		return true;
	}
	// ops below splice whole HDUs: an HDU whose header (after an earlier edit) promises more bytes than the
	// image holds cannot be spliced
	auto inside = [&](const Hdu &h) { return h.hdr_off <= h.data_off && h.data_off <= h.next_off && h.next_off <= img.size(); };
	if (c == "swap_naxis") {
		// the coefficient image keeps its element count but gets another shape: two axis lengths change places
		// (or, when they are equal, one is halved and the other doubled). Only the two NAXISn cards change.
		const Hdu &h = hdus[0];
		if (h.naxis.size() < 2) { note = "fewer than two axes"; return false; }
		size_t a = (size_t)((uint64_t)op.geti("a") % h.naxis.size()), b = (size_t)((uint64_t)op.geti("b") % h.naxis.size());
		if (a == b) b = (a + 1) % h.naxis.size();
		int64_t na = h.naxis[a], nb = h.naxis[b];
		if (na == nb) { if (na % 2 || na < 2) { note = "equal odd axes"; return false; } na /= 2; nb *= 2; }
		else std::swap(na, nb);
		int ca = find_card(h, "NAXIS" + std::to_string(a + 1)), cb = find_card(h, "NAXIS" + std::to_string(b + 1));
		if (ca < 0 || cb < 0) { note = "no NAXISn card"; return false; }
		write_card(img, h, (size_t)ca, card_int("NAXIS" + std::to_string(a + 1), na));
		write_card(img, h, (size_t)cb, card_int("NAXIS" + std::to_string(b + 1), nb));
		note = "axes " + std::to_string(a + 1) + " and " + std::to_string(b + 1) + " now " + std::to_string(na) + " and " + std::to_string(nb);
		return true;
	}
	if (c == "resize_primary") {
		const Hdu &h = hdus[0];
		if (h.naxis.empty()) { note = "primary has no axes"; return false; }
		if (h.data_off > img.size()) { note = "data unit not inside the image"; return false; }
		size_t ax = (size_t)((uint64_t)(op.geti("axis") < 1 ? 0 : op.geti("axis") - 1) % h.naxis.size());
		int64_t n = op.geti("n");
		if (n < 0 || h.naxis[ax] > (int64_t(1) << 32) || n > 4 * std::max<int64_t>(h.naxis[ax], 4)) { note = "size out of range"; return false; }
		if (n == h.naxis[ax]) { note = "unchanged"; return false; }
		int ci = find_card(h, "NAXIS" + std::to_string(ax + 1));
		if (ci < 0) { note = "no NAXISn card"; return false; }
		uint64_t cnt = 1;
		for (size_t i = 0; i < h.naxis.size(); i++) {
			uint64_t f = (uint64_t)(i == ax ? n : h.naxis[i]);
			if (f && cnt > (uint64_t(1) << 40) / f) { note = "too large"; return false; }
			cnt *= f;
		}
		uint64_t bpp = (uint64_t)(h.bitpix < 0 ? -h.bitpix : h.bitpix) / 8;
		if (bpp > 8) { note = "odd BITPIX"; return false; }
		uint64_t bytes = cnt * bpp;
		if (bytes > (64u << 20)) { note = "too large"; return false; }
		Bytes data(img.begin() + (long)h.data_off, img.begin() + (long)std::min<size_t>(img.size(), h.data_off + h.data_len));
		Bytes nd((size_t)bytes);
		for (size_t i = 0; i < nd.size(); i++) nd[i] = data.empty() ? 0 : data[i % data.size()];
		while (nd.size() % BLOCK) nd.push_back(0);
		write_card(img, h, (size_t)ci, card_int("NAXIS" + std::to_string(ax + 1), n));
		Bytes out(img.begin(), img.begin() + (long)h.data_off);
		out.insert(out.end(), nd.begin(), nd.end());
		out.insert(out.end(), img.begin() + (long)std::min(h.next_off, img.size()), img.end());
		img.swap(out);
		return true;
	}
	if (c == "drop_ext" || c == "dup_ext" || c == "swap_ext" || c == "resize_ext") {
		if (hdus.size() < 2) { note = "no extension"; return false; }
		if (c == "swap_ext") {
			int a = hdu_index("a", true), b = hdu_index("b", true);
			if (a == b) { note = "same extension"; return false; }
			if (a > b) std::swap(a, b);
			const Hdu &A = hdus[(size_t)a], &B = hdus[(size_t)b];
			if (!inside(A) || !inside(B) || A.next_off > B.hdr_off) { note = "extension not inside the image"; return false; }
			Bytes out(img.begin(), img.begin() + (long)A.hdr_off);
			out.insert(out.end(), img.begin() + (long)B.hdr_off, img.begin() + (long)B.next_off);
			out.insert(out.end(), img.begin() + (long)A.next_off, img.begin() + (long)B.hdr_off);
			out.insert(out.end(), img.begin() + (long)A.hdr_off, img.begin() + (long)A.next_off);
			out.insert(out.end(), img.begin() + (long)B.next_off, img.end());
			img.swap(out);
			return true;
		}
		int hi = hdu_index("hdu", true);
		const Hdu &h = hdus[(size_t)hi];
		if (!inside(h)) { note = "extension not inside the image"; return false; }
		if (c == "drop_ext") { img.erase(img.begin() + (long)h.hdr_off, img.begin() + (long)h.next_off); return true; }
		if (c == "dup_ext") { Bytes e(img.begin() + (long)h.hdr_off, img.begin() + (long)h.next_off); img.insert(img.begin() + (long)h.next_off, e.begin(), e.end()); return true; }
		// resize_ext: a consistent 1-d double image of another length
		if (h.bitpix != -64 || h.naxis.size() != 1) { note = "not a 1-d double image"; return false; }
		int64_t n = op.geti("n");
		if (n < 0 || h.naxis[0] > (int64_t(1) << 24) || n > 4 * std::max<int64_t>(h.naxis[0], 8)) { note = "size out of range"; return false; }
		if (n == h.naxis[0]) { note = "unchanged"; return false; }
		int ci = find_card(h, "NAXIS1");
		if (ci < 0) { note = "no NAXIS1"; return false; }
		// an earlier card edit may have made the header promise more data than the image holds
		if (h.data_off > img.size() || (uint64_t)h.naxis[0] > (img.size() - h.data_off) / 8 || h.next_off > img.size()) { note = "data unit not inside the image"; return false; }
		std::vector<double> v((size_t)h.naxis[0]);
		for (size_t i = 0; i < v.size(); i++) {
			uint64_t u = 0;
			for (int b = 0; b < 8; b++) u = (u << 8) | img[h.data_off + 8 * i + (size_t)b];
			memcpy(&v[i], &u, 8);
		}
		double last = v.empty() ? 0.0 : v.back();
		double step = v.size() > 1 && std::isfinite(v[v.size() - 1] - v[v.size() - 2]) && v[v.size() - 1] > v[v.size() - 2] ? v[v.size() - 1] - v[v.size() - 2] : 1.0;
		size_t old = v.size();
		v.resize((size_t)n);
		for (size_t i = old; i < v.size(); i++) { last += step; v[i] = last; }
		Bytes nd;
		for (double d : v) { uint64_t u; memcpy(&u, &d, 8); for (int b = 7; b >= 0; b--) nd.push_back((uint8_t)(u >> (8 * b))); }
		while (nd.size() % BLOCK) nd.push_back(0);
		write_card(img, h, (size_t)ci, card_int("NAXIS1", n, "length of data axis 1"));
		Bytes out(img.begin(), img.begin() + (long)h.data_off);
		out.insert(out.end(), nd.begin(), nd.end());
		out.insert(out.end(), img.begin() + (long)h.next_off, img.end());
		img.swap(out);
		return true;
	}
	if (c == "knot_set" || c == "knot_swap" || c == "knots_reverse") {
		std::string name = "KNOTS" + std::to_string(op.geti("dim"));
		const Hdu *h = nullptr;
		for (size_t i = 1; i < hdus.size(); i++) if (hdus[i].extname == name) { h = &hdus[i]; break; }
		// (overflow-safe: NAXIS1 may have been edited to 2^62)
		if (!h || h->bitpix != -64 || h->naxis.size() != 1 || h->naxis[0] < 1 || h->data_off > img.size() || (uint64_t)h->naxis[0] > (img.size() - h->data_off) / 8) { note = "no usable " + name; return false; }
		size_t n = (size_t)h->naxis[0];
		uint8_t *p = img.data() + h->data_off;
		if (c == "knot_set") {
			size_t i = (size_t)((uint64_t)op.geti("idx") % n);
			double d = op["val"].num();
			uint64_t u; memcpy(&u, &d, 8);
			Bytes before(p + 8 * i, p + 8 * i + 8);
			for (int b = 0; b < 8; b++) p[8 * i + (size_t)b] = (uint8_t)(u >> (8 * (7 - b)));
			if (memcmp(before.data(), p + 8 * i, 8) == 0) { note = "unchanged"; return false; }
			return true;
		}
		if (c == "knot_swap") {
			size_t i = (size_t)((uint64_t)op.geti("i") % n), j = (size_t)((uint64_t)op.geti("j") % n);
			if (i == j || memcmp(p + 8 * i, p + 8 * j, 8) == 0) { note = "same knot"; return false; }
			std::swap_ranges(p + 8 * i, p + 8 * i + 8, p + 8 * j);
			return true;
		}
		if (n < 2) { note = "one knot"; return false; }
		for (size_t i = 0; i < n / 2; i++) std::swap_ranges(p + 8 * i, p + 8 * i + 8, p + 8 * (n - 1 - i));
		return true;
	}
	note = "unknown corruption " + c;
	return false;
}

} // namespace psv
