// Cooperative deterministic scheduler: the system under test runs on ucontext
// fibers; every pthread call of the repository's objects is redirected here at
// link time (-Wl,--wrap=...). Exactly one fiber runs; a fiber yields only inside
// a wrapped call; the scheduler decides who runs next from the plan alone.
#pragma once
#include "prng.h"
#include "json.h"
#include "harness.h"
#include <functional>
#include <map>
#include <string>
#include <vector>
#include <ucontext.h>

namespace psv {

typedef std::vector<uint32_t> VClock;

enum OpKind { OP_NONE, OP_START, OP_CREATE, OP_LOCK, OP_TRYLOCK, OP_UNLOCK, OP_CWAIT_ENTER, OP_CWAIT_WAKE,
              OP_BCAST, OP_SIGNAL, OP_JOIN, OP_EXIT, OP_YIELD, OP_MISC };
const char *op_name(OpKind k);

struct SchedConfig {
	std::string policy = "random";      // random | pct | stall | newest | oldest | sticky | explicit
	uint64_t seed = 0;                  // drives every random choice of the policy
	int pct_depth = 2;
	int stall_victim = 0, stall_start = 0, stall_len = 0;
	double sticky_p = 0.2;              // preemption probability of the sticky policy
	bool spurious = false;              // deliver (a bounded number of) spurious cond wake-ups
	double spurious_p = 0.05;
	int spurious_max = 6;
	bool timedwait_timeouts = false;    // let timed waits time out
	std::vector<int64_t> explicit_choices; // policy "explicit": >=0 run fiber; <0 spurious wake of fiber -c-1
	int64_t step_budget = 200000;       // whole-run bound (logical steps)
	static SchedConfig from_json(const Json &j);
	Json to_json() const;
};

struct SchedOutcome {
	enum Kind { OK, DEADLOCK, BUDGET, CALL_BUDGET, MISUSE, ABANDONED } kind = OK;
	std::string detail;
	int64_t steps = 0;
	int preemptions = 0;
	int spurious_delivered = 0;
	int fibers = 0;
	uint64_t trace_hash = 0;
	std::vector<int64_t> trace;         // the schedule actually taken (explicit form)
	bool diverged = false;              // an explicit schedule could not be followed
};

class Sched {
public:
	// run fn on fiber 0 under the scheduler until every fiber finished, or the
	// run deadlocks / exhausts its budget (then all fibers are abandoned)
	static SchedOutcome run(const SchedConfig &cfg, RunCtx *ctx, std::function<void()> fn);
	static bool active();               // a simulated run is in progress
	static int current();               // fiber id, -1 outside
	static int64_t steps();
	// bounded liveness for a nested call: abort the run when more than n further
	// steps pass before end_call_budget()
	static void begin_call_budget(int64_t n, const char *what);
	static int64_t end_call_budget();   // returns steps used
	static const VClock &clock_of_current();
	static void misuse(const std::string &what); // pthread API misuse by the SUT
	// canonical section: while active every choice is "newest enabled fiber first" (deterministic, draws no
	// random numbers, delivers no spurious wake-ups) and is not recorded in the explicit trace; used to
	// execute the same code once under a fixed reference schedule
	static void begin_canonical();
	static void end_canonical();
	// called on a fiber: give up the whole run now (all fibers are abandoned); does not return
	static void abandon(const std::string &why);
};

// ---- happens-before race detector (accesses are fed by the __tsan_* callbacks
// of instrumented repository objects and by modelled library calls) ----
struct RaceReport { std::string what; std::string detail; };
class Race {
public:
	static void reset();
	static void enable(bool on);
	static bool enabled();
	static void access(const void *addr, size_t size, bool write, const char *origin);
	static void region_alloc(const void *addr, size_t size, const char *cls);  // new object: clear shadow, remember name
	static void region_free(const void *addr);
	static void name_region(const void *addr, size_t size, const std::string &name);
	static const std::vector<RaceReport> &reports();
	static int64_t accesses();
};

} // namespace psv
