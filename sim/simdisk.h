// Simulated disk (DESIGN §3.4, seams S4/S5).
//
// Link-time wrappers (`-Wl,--wrap=`) of the libc calls cfitsio's disk driver
// (drvrfile.o of the static libcfitsio.a) really references:
//
//     fopen64  remove  fileno  ftruncate64      (+ fopen, ftruncate as guards)
//     rename  unlink  access                    (not used by the pinned code: present so that a
//                                                 writer which starts to use them stays inside the simulation)
//     realloc                                   (growth of cfitsio memory files)
//     open open64 creat read write pread pwrite pread64 pwrite64 lseek lseek64 close fsync fdatasync
//                                               (POSIX descriptor I/O: not used by the pinned code either; a
//                                                 writer that serialises to memory and then write(2)s the buffer,
//                                                 or that fsyncs a temporary file before renaming it, stays
//                                                 inside the simulation. Descriptors of /sim files are numbers
//                                                 above 0x3f000000; every other descriptor passes through.
//                                                 At this level short writes are *visible* to the caller, as
//                                                 they are on a real descriptor.)
//
// A path below "/sim/" names an in-memory file. fopen64() of such a path
// returns an fopencookie() stream, so cfitsio's driver *and glibc's stdio
// buffering* are the real code and only the kernel file object is simulated.
// Every other path (and every other FILE* / descriptor) passes through to the
// real function.
//
// What is simulated is the kernel interface: open / write / read / lseek /
// ftruncate / unlink / close. Each such operation on a /sim path is appended
// to the op log (writes with the bytes that were persisted). glibc's
// `_IO_new_file_write` loop is re-stated in the cookie write function, because
// glibc treats a short *cookie* write as an error whereas a short write(2) on
// a descriptor is legal and retried: short kernel writes are therefore
// invisible to the code under test, exactly as on a real descriptor.
//
// Public API (namespace psv::disk), all deterministic, nothing reads a clock:
//
//   reset()                       forget files, handles, log, faults, config
//   put(path, bytes) / get(path, out) / exists(path) / unlink(path) / list()
//                                 direct access to the file table (not logged,
//                                 never faulted)
//   set_config(Config)            stdio buffer size given to every later open
//                                 (setvbuf), legal short-I/O chunking
//   oplog() / clear_oplog()       kernel-level operations since the last clear
//   arm(faults) / disarm()        fault injection; `at` counts operations of
//                                 the fault's kind since arm() (0-based)
//   fired() / clear_fired()       "<on>:<err>" -> how often it really fired
//   op_count(kind)                operations of a kind since arm()/reset()
//   crash_image(log, path, k, b, initial)
//                                 file `path` after the first k ops of `log`
//                                 and the first b bytes of op k (torn write)
//   open_handles()                sim streams not closed yet
//   arm_realloc(at, persistent) / disarm_realloc() / realloc_calls() /
//   realloc_fired()               wrapped realloc: pass-through unless armed
//   stats()                       short writes looped over, short reads, ...
#pragma once
#include <cstdint>
#include <map>
#include <string>
#include <vector>

namespace psv {
namespace disk {

typedef std::vector<uint8_t> Bytes;

enum OpKind { OP_OPEN = 0, OP_WRITE, OP_READ, OP_SEEK, OP_TRUNCATE, OP_REMOVE, OP_CLOSE, OP_RENAME, OP_SYNC, OP_NKINDS };
const char *kind_name(OpKind k);              // "open","write","read","seek","truncate","remove","close"
bool kind_from_name(const std::string &s, OpKind &k);

struct Op {
	OpKind kind = OP_OPEN;
	std::string path;      // path the handle was opened on (or the path removed)
	int handle = -1;       // open ordinal within the run, -1 for remove
	std::string mode;      // open only
	std::string path2;     // rename only: the new name
	uint64_t off = 0;      // write/read: file offset; seek: resulting offset; truncate: new length
	uint64_t len = 0;      // write/read: bytes requested
	uint64_t done = 0;     // write/read: bytes transferred
	int err = 0;           // errno of a failed operation, 0 = success
	std::string fault;     // "<err>" of the injected fault that fired here, "" = none
	Bytes bytes;           // write: the `done` bytes persisted
};

// I/O fault attached to the at-th operation of a kind.
//   on = "write": err in ENOSPC EFBIG EIO EINTR short_ENOSPC short_EIO lost_EIO
//                 (lost_EIO: the write is accepted in full but never reaches the medium - the range keeps its old
//                 bytes, zeros where the file grew - and the next fsync or close of the handle reports EIO)
//                 (short_*: `arg` bytes (mod len) are persisted, the
//                 continuation of the write then fails with that errno)
//   on = "quota": every write that would extend a file past `arg` bytes
//                 persists what fits and then fails with err (ENOSPC or
//                 EFBIG); `at` is ignored, always persistent
//   on = "read":  EIO | short (legal short read of `arg` mod len bytes, >=1)
//                 | eof (premature end of file: 0 bytes)
//   on = "seek":  EIO          on = "close": EIO ENOSPC
//   on = "remove": EACCES      on = "open":  ENOENT EACCES EMFILE
//   on = "rename": ENOSPC EACCES EXDEV (the file keeps its old name)
//   on = "truncate": EIO ENOSPC
//   on = "sync": EIO ENOSPC (fsync / fdatasync)
// persistent: the fault hits the at-th and every later operation of the kind.
struct Fault {
	std::string on;
	int64_t at = 0;
	std::string err;
	bool persistent = false;
	int64_t arg = 0;
};

struct Config {
	// stdio buffer size for every /sim stream opened from now on:
	// 0 = unbuffered, n = fully buffered with n bytes, -1 = glibc's default
	// (read-only streams get at least 512: see sim_open in simdisk.cpp)
	int64_t bufsize = -1;
	// legal short transfers (never visible to correct code)
	uint64_t chunk_seed = 0;
	int short_write_permille = 0;   // probability that a kernel write is short
	int short_read_permille = 0;    // probability that a kernel read is short
	uint64_t max_chunk = 0;         // upper bound of one kernel transfer, 0 = none
};

struct Stats {
	uint64_t short_writes_looped = 0;   // kernel writes that were short and continued by the stdio loop
	uint64_t short_reads = 0;
	uint64_t cookie_writes = 0, cookie_reads = 0;
	uint64_t opens = 0;
};

struct Image {
	bool exists = false;
	Bytes bytes;
};

void reset();
void put(const std::string &path, const Bytes &bytes);
bool get(const std::string &path, Bytes &out);
bool exists(const std::string &path);
bool unlink(const std::string &path);
std::vector<std::string> list();
bool is_sim_path(const char *path);

void set_config(const Config &c);
const Config &config();

const std::vector<Op> &oplog();
void clear_oplog();
void set_log_reads(bool on);   // read/seek ops can be left out of the log (they are still counted and faulted)

void arm(const std::vector<Fault> &faults);
void disarm();
const std::map<std::string, uint64_t> &fired();
void clear_fired();
uint64_t op_count(OpKind k);
size_t open_handles();
const Stats &stats();

Image crash_image(const std::vector<Op> &log, const std::string &path, size_t k, uint64_t b, const Image &initial);

void arm_realloc(int64_t at, bool persistent);
void disarm_realloc();
uint64_t realloc_calls();
uint64_t realloc_fired();

int errno_from_name(const std::string &s);     // "ENOSPC" -> ENOSPC, 0 if unknown
const char *errno_name(int e);

} // namespace disk
} // namespace psv
