// TableModel — abstract state of a spline table (DESIGN §3.7).
//
//   Empty | Populated{ndim, order[], knots[][], naxes[], strides[], coeff[],
//                     extents[], aux: ordered [(key,value)]}
//
// The model is compared with a real table object *through its public getters
// only* (get_ndim, get_order, get_nknots, get_knots, get_ncoeffs, get_stride,
// get_coefficients, lower_extent, upper_extent, get_naux_values, get_aux_key,
// get_aux_value), so the same code serves photospline::splinetable<Alloc> for
// any allocator and any adapter that offers those members (the C-handle view
// of psv_hist). get_period is deliberately not used: a fitted table has no
// period array and the getter dereferences null.
//
// For operations whose numeric result the model does not predict (fit,
// convolve, read) the observed state becomes the new model state after the
// structural post-conditions passed; what the model decides is emptiness,
// "unchanged on failure", the aux map, shape rules and — through
// expected_blocks() — exactly which allocator blocks a table in this state
// owns (the ledger of sim/simalloc.h is compared against it).
#pragma once
#include "fitscodec.h"
#include "prng.h"
#include <algorithm>
#include <cmath>
#include <cstdint>
#include <cstring>
#include <string>
#include <utility>
#include <vector>

namespace psv {

struct TableModel {
	bool populated = false;
	uint32_t ndim = 0;
	std::vector<uint32_t> order;
	std::vector<std::vector<double>> knots;
	std::vector<uint64_t> naxes, strides;
	std::vector<float> coeff;
	std::vector<double> extents;                            // lo0,hi0,lo1,hi1,...
	std::vector<std::pair<std::string, std::string>> aux;   // insertion order
	// allocator-level detail of an aux entry: bytes by which its value block is
	// longer than strlen(value)+1 (the reader allocates before it strips the
	// FITS quotes). Parallel to aux, missing entries mean 0; never compared.
	std::vector<int> aux_slack;
	// whether the object owns a period array: not observable through a safe
	// getter, learnt from the ledger. -1 unknown, 0 no, 1 yes
	int periods = -1;
	// a table built by the stacking constructor has no extents array at all
	// (lower_extent/upper_extent would dereference null): such a state is
	// captured without touching the extent getters
	bool has_extents = true;

	static TableModel empty() { return TableModel(); }

	uint64_t ncoeffs() const { uint64_t n = 1; for (auto a : naxes) n *= a; return populated ? n : 0; }

	// ---- capture through public getters (the object must be in a readable state)
	template <class T> static TableModel capture(const T &t, bool with_extents = true) {
		TableModel m;
		m.has_extents = with_extents;
		m.ndim = t.get_ndim();
		m.populated = m.ndim != 0;
		for (uint32_t i = 0; i < m.ndim; i++) {
			m.order.push_back(t.get_order(i));
			uint64_t nk = t.get_nknots(i);
			const double *k = t.get_knots(i);
			m.knots.emplace_back(k, k + nk);
			m.naxes.push_back(t.get_ncoeffs(i));
			m.strides.push_back(t.get_stride(i));
			if (with_extents) {
				m.extents.push_back(t.lower_extent(i));
				m.extents.push_back(t.upper_extent(i));
			}
		}
		if (m.populated) {
			uint64_t n = m.ncoeffs();
			const float *c = t.get_coefficients();
			m.coeff.assign(c, c + n);
		}
		size_t na = t.get_naux_values();
		for (size_t i = 0; i < na; i++) {
			std::string k = t.get_aux_key(i);
			const char *v = t.get_aux_value(k.c_str());
			m.aux.emplace_back(k, v ? std::string(v) : std::string());
		}
		return m;
	}

	static bool same_float(float a, float b) {
		if (std::isnan(a) || std::isnan(b)) return std::isnan(a) && std::isnan(b);
		return std::memcmp(&a, &b, 4) == 0;
	}
	static bool same_double(double a, double b) {
		if (std::isnan(a) || std::isnan(b)) return std::isnan(a) && std::isnan(b);
		return std::memcmp(&a, &b, 8) == 0;
	}

	// first field in which two states differ, "" when equal (bit patterns, NaN by class)
	std::string diff(const TableModel &o, bool with_aux = true) const {
		if (populated != o.populated) return "emptiness";
		if (ndim != o.ndim) return "ndim";
		if (order != o.order) return "order";
		if (naxes != o.naxes) return "naxes";
		if (strides != o.strides) return "strides";
		if (knots.size() != o.knots.size()) return "nknots";
		for (size_t i = 0; i < knots.size(); i++) {
			if (knots[i].size() != o.knots[i].size()) return "nknots";
			for (size_t j = 0; j < knots[i].size(); j++) if (!same_double(knots[i][j], o.knots[i][j])) return "knots";
		}
		if (coeff.size() != o.coeff.size()) return "ncoeffs";
		for (size_t i = 0; i < coeff.size(); i++) if (!same_float(coeff[i], o.coeff[i])) return "coeff";
		if (populated && has_extents != o.has_extents) return "extents";
		if (extents.size() != o.extents.size()) return "extents";
		for (size_t i = 0; i < extents.size(); i++) if (!same_double(extents[i], o.extents[i])) return "extents";
		if (with_aux) {
			if (aux.size() != o.aux.size()) return "aux-count";
			// A key can be present twice (a header may repeat a keyword and the reader keeps both cards). The getters
			// find an entry by its key, so what can be observed of a repeated key is the value of its first entry:
			// values are compared as they can be seen
			for (size_t i = 0; i < aux.size(); i++) {
				if (aux[i].first != o.aux[i].first) return "aux-key";
				if (visible_value(i) != o.visible_value(i)) return "aux-value";
			}
		}
		return "";
	}
	template <class T> std::string compare(const T &t, bool with_aux = true) const { return diff(capture(t, has_extents || !populated), with_aux); }

	// what splinetable::operator== computes (orders, axis lengths, knots and
	// coefficients compared by value: a NaN never equals anything)
	bool same_table(const TableModel &o) const {
		if (ndim != o.ndim) return false;
		if (order != o.order || naxes != o.naxes) return false;
		for (uint32_t i = 0; i < ndim; i++) {
			if (knots[i].size() != o.knots[i].size()) return false;
			for (size_t j = 0; j < knots[i].size(); j++) if (!(knots[i][j] == o.knots[i][j])) return false;
		}
		if (coeff.size() != o.coeff.size()) return false;
		for (size_t i = 0; i < coeff.size(); i++) if (!(coeff[i] == o.coeff[i])) return false;
		return true;
	}

	// ---- shape rules every populated state must satisfy (structural post-condition)
	std::string shape_rule() const {
		if (!populated) return (order.empty() && knots.empty() && naxes.empty() && coeff.empty()) ? "" : "empty-with-arrays";
		if (order.size() != ndim || knots.size() != ndim || naxes.size() != ndim || strides.size() != ndim) return "array-counts";
		uint64_t want = 1;
		for (uint32_t i = ndim; i-- > 0;) {
			if (strides[i] != want) return "strides";
			want *= naxes[i];
		}
		if (coeff.size() != want) return "ncoeffs";
		return "";
	}
	// naxes = nknots - order - 1 >= 1, knots finite and non-decreasing: only
	// then is evaluation inside the fully supported region well defined
	bool evaluable() const {
		if (!populated || !shape_rule().empty()) return false;
		for (uint32_t i = 0; i < ndim; i++) {
			if (naxes[i] < 1 || knots[i].size() != naxes[i] + order[i] + 1 || naxes[i] < order[i] + 1) return false;
			for (size_t j = 0; j < knots[i].size(); j++) {
				if (!std::isfinite(knots[i][j])) return false;
				if (j && knots[i][j] < knots[i][j - 1]) return false;
			}
		}
		return true;
	}

	// ---- aux map semantics
	const std::string &visible_value(size_t i) const {
		for (size_t j = 0; j < i; j++) if (aux[j].first == aux[i].first) return aux[j].second;
		return aux[i].second;
	}
	// values of the later entries of repeated keys cannot be captured through the getters: a freshly captured
	// state takes them over from the state it continues (k-th entry of a key from the k-th entry of that key)
	void inherit_hidden_values(const TableModel &prev) {
		for (size_t i = 0; i < aux.size(); i++) {
			size_t occ = 0;
			for (size_t j = 0; j < i; j++) if (aux[j].first == aux[i].first) occ++;
			if (!occ) continue;
			size_t seen = 0;
			for (size_t j = 0; j < prev.aux.size(); j++) if (prev.aux[j].first == aux[i].first) { if (seen == occ) { aux[i].second = prev.aux[j].second; break; } seen++; }
		}
	}
	int find_key(const std::string &k) const {
		for (size_t i = 0; i < aux.size(); i++) if (aux[i].first == k) return (int)i;
		return -1;
	}
	// insert or overwrite; returns true when the key was new
	bool write_key(const std::string &k, const std::string &v) {
		int i = find_key(k);
		aux_slack.resize(aux.size(), 0);
		if (i >= 0) { aux[(size_t)i].second = v; aux_slack[(size_t)i] = 0; return false; }
		aux.emplace_back(k, v);
		aux_slack.push_back(0);
		return true;
	}
	bool remove_key(const std::string &k) {
		int i = find_key(k);
		if (i < 0) return false;
		aux_slack.resize(aux.size(), 0);
		aux.erase(aux.begin() + i);
		aux_slack.erase(aux_slack.begin() + i);
		return true;
	}
	int slack(size_t i) const { return i < aux_slack.size() ? aux_slack[i] : 0; }
	void set_slack(size_t i, int n) { aux_slack.resize(aux.size(), 0); if (i < aux_slack.size()) aux_slack[i] = n; }
	// allocator-level knowledge (period array, value-block slack) is not
	// observable through getters: a freshly captured state takes it over from
	// the previous model of the same object for everything that did not change
	void inherit(const TableModel &prev) {
		if (populated && prev.populated && ndim == prev.ndim && periods < 0) periods = prev.periods;
		inherit_aux(prev);
	}
	void inherit_aux(const TableModel &prev) {
		aux_slack.assign(aux.size(), 0);
		std::vector<bool> used(prev.aux.size(), false);
		for (size_t i = 0; i < aux.size(); i++)
			for (size_t j = 0; j < prev.aux.size(); j++)
				if (!used[j] && prev.aux[j] == aux[i]) { aux_slack[i] = prev.slack(j); used[j] = true; break; }
	}

	// ---- permuteDimensions: new dimension i is old dimension perm[i]
	bool valid_permutation(const std::vector<size_t> &perm) const {
		if (perm.size() != ndim) return false;
		std::vector<bool> seen(ndim, false);
		for (size_t j : perm) { if (j >= ndim || seen[j]) return false; seen[j] = true; }
		return true;
	}
	TableModel permuted(const std::vector<size_t> &perm) const {
		TableModel m = *this;
		for (uint32_t i = 0; i < ndim; i++) {
			size_t j = perm[i];
			m.order[i] = order[j]; m.naxes[i] = naxes[j]; m.knots[i] = knots[j];
			if (has_extents) { m.extents[2 * i] = extents[2 * j]; m.extents[2 * i + 1] = extents[2 * j + 1]; }
		}
		uint64_t s = 1;
		for (uint32_t i = ndim; i-- > 0;) { m.strides[i] = s; s *= m.naxes[i]; }
		std::vector<uint64_t> idx(ndim);
		for (uint64_t pos = 0; pos < coeff.size(); pos++) {
			uint64_t rem = pos;
			for (uint32_t i = 0; i < ndim; i++) { idx[i] = rem / strides[i]; rem %= strides[i]; }
			uint64_t np = 0;
			for (uint32_t i = 0; i < ndim; i++) np += idx[perm[i]] * m.strides[i];
			m.coeff[np] = coeff[pos];
		}
		return m;
	}

	// ---- allocator blocks a table in this state owns (bytes each, sorted;
	// zero-byte blocks are left out: the reader takes a 0-length aux array for a
	// header without keys, a fitted table has none)
	std::vector<size_t> expected_blocks(bool with_periods, bool with_values = true) const {
		std::vector<size_t> b;
		if (populated) {
			size_t d = ndim;
			b.push_back(4 * d);               // order
			b.push_back(8 * d);               // knot pointers
			b.push_back(8 * d);               // nknots
			for (uint32_t i = 0; i < ndim; i++) b.push_back(8 * (knots[i].size() + 2 * (size_t)order[i]));
			if (has_extents) {
				b.push_back(8 * d);           // extent pointers
				b.push_back(16 * d);          // extents
			}
			if (with_periods) b.push_back(8 * d);
			b.push_back(4 * (size_t)ncoeffs());
			b.push_back(8 * d);               // naxes
			b.push_back(8 * d);               // strides
		}
		if (!aux.empty()) b.push_back(8 * aux.size());
		for (size_t i = 0; i < aux.size(); i++) {
			b.push_back(16);
			b.push_back(aux[i].first.size() + 1);
			if (with_values) b.push_back(aux[i].second.size() + 1 + (size_t)slack(i));
		}
		b.erase(std::remove(b.begin(), b.end(), (size_t)0), b.end());
		std::sort(b.begin(), b.end());
		return b;
	}

	// ---- conversions
	// what a reader must produce from an image of `s` (extents made up from the
	// knots when the image has none; card comments dropped)
	static TableModel from_spec(const TableSpec &s) {
		TableModel m;
		m.ndim = s.ndim;
		m.populated = s.ndim != 0;
		m.order = s.order; m.knots = s.knots; m.naxes = s.naxes; m.coeff = s.coeff;
		m.strides.assign(s.ndim, 1);
		uint64_t st = 1;
		for (uint32_t i = s.ndim; i-- > 0;) { m.strides[i] = st; st *= s.naxes[i]; }
		if (s.has_extents) m.extents = s.extents;
		else for (uint32_t i = 0; i < s.ndim; i++) {
			const auto &k = s.knots[i];
			m.extents.push_back(k[s.order[i]]);
			m.extents.push_back(k[k.size() - s.order[i] - 1]);
		}
		for (auto &e : s.aux) m.aux.emplace_back(e.key, e.value);
		m.periods = 1;
		return m;
	}
	TableSpec to_spec() const {
		TableSpec s;
		s.ndim = ndim; s.order = order; s.knots = knots; s.naxes = naxes; s.coeff = coeff;
		s.has_extents = true; s.extents = extents;
		for (auto &kv : aux) { AuxEntry e; e.key = kv.first; e.value = kv.second; s.aux.push_back(e); }
		return s;
	}

	// content digest for the event log (bit patterns; NaNs folded by class)
	uint64_t digest() const {
		uint64_t h = fnv1a(&ndim, sizeof ndim);
		auto fold = [&](const void *p, size_t n) { h = fnv1a(p, n, h); };
		for (auto o : order) fold(&o, sizeof o);
		for (auto a : naxes) fold(&a, sizeof a);
		for (auto &k : knots) for (double d : k) { uint64_t u; if (std::isnan(d)) u = 0x7ff8000000000000ULL; else std::memcpy(&u, &d, 8); fold(&u, 8); }
		for (float f : coeff) { uint32_t u; if (std::isnan(f)) u = 0x7fc00000u; else std::memcpy(&u, &f, 4); fold(&u, 4); }
		for (double d : extents) { uint64_t u; if (std::isnan(d)) u = 0x7ff8000000000000ULL; else std::memcpy(&u, &d, 8); fold(&u, 8); }
		for (auto &kv : aux) { fold(kv.first.data(), kv.first.size()); fold("=", 1); fold(kv.second.data(), kv.second.size()); fold(";", 1); }
		return h;
	}
	// coarse class for the "distinct states" statistic
	std::string state_class() const {
		std::string s = populated ? "pop" + std::to_string(ndim) : "empty";
		if (!aux.empty()) s += aux.size() > 3 ? "+keys" : "+key";
		return s;
	}
};

} // namespace psv
